package main

import (
	"context"
	"encoding/hex"
	"errors"
	"fmt"
	"math/big"
	"strings"

	"verifharness/internal/asm"
	"verifharness/internal/impl"
	"verifharness/internal/items"
	"verifharness/internal/rng"

	"github.com/artela-network/artela-evm/vm"
	actypes "github.com/artela-network/aspect-core/types"
	"github.com/ethereum/go-ethereum/common"
)

func init() { commands["abi"] = cmdAbi }

type hostCall struct {
	Kind string `json:"kind"`
	A    string `json:"a"`
	B    string `json:"b,omitempty"`
	C    string `json:"c,omitempty"`
}

func (h hostCall) item(l *items.L) {
	a, _ := hex.DecodeString(h.A)
	b, _ := hex.DecodeString(h.B)
	c, _ := hex.DecodeString(h.C)
	l.Open()
	switch h.Kind {
	case "get":
		l.N(0).B(a).B(b)
	case "set":
		l.N(1).B(a).B(b).B(c)
	default:
		l.N(2).B(a)
	}
	l.Close()
}

// installHost installs the deterministic host oracle (same function as Corr/PrecompileCorr.v test_host)
// and returns the log it appends to.
func installHost() *[]hostCall {
	log := &[]hostCall{}
	actypes.GetAspectContext = func(ctx context.Context, a common.Address, key string) ([]byte, error) {
		*log = append(*log, hostCall{Kind: "get", A: hex.EncodeToString(a.Bytes()), B: hex.EncodeToString([]byte(key))})
		if len(key) > 0 && key[0] == 0xEE {
			return nil, errors.New("host get failed")
		}
		return append([]byte(key), a.Bytes()...), nil
	}
	actypes.SetAspectContext = func(ctx context.Context, a common.Address, key string, value []byte) error {
		*log = append(*log, hostCall{Kind: "set", A: hex.EncodeToString(a.Bytes()), B: hex.EncodeToString([]byte(key)), C: hex.EncodeToString(value)})
		if len(key) > 0 && key[0] == 0xEE {
			return errors.New("host set failed")
		}
		return nil
	}
	actypes.JITSenderAspectByContext = func(ctx context.Context, h common.Hash) (common.Address, error) {
		*log = append(*log, hostCall{Kind: "jit", A: hex.EncodeToString(h.Bytes())})
		if h[31] == 0xEE {
			return common.Address{}, errors.New("host jit failed")
		}
		return common.BytesToAddress(h[12:]), nil
	}
	return log
}

// installHostQuiet: the same deterministic host functions without the shared call log (safe to call from concurrently
// running EVM instances: the race harness must not report races of its own).
func installHostQuiet() {
	actypes.GetAspectContext = func(ctx context.Context, a common.Address, key string) ([]byte, error) {
		if len(key) > 0 && key[0] == 0xEE {
			return nil, errors.New("host get failed")
		}
		return append([]byte(key), a.Bytes()...), nil
	}
	actypes.SetAspectContext = func(ctx context.Context, a common.Address, key string, value []byte) error {
		if len(key) > 0 && key[0] == 0xEE {
			return errors.New("host set failed")
		}
		return nil
	}
	actypes.JITSenderAspectByContext = func(ctx context.Context, h common.Hash) (common.Address, error) {
		if h[31] == 0xEE {
			return common.Address{}, errors.New("host jit failed")
		}
		return common.BytesToAddress(h[12:]), nil
	}
}

type abiCase struct {
	Idx    int        `json:"idx"`
	Class  string     `json:"class"`
	Fork   string     `json:"fork"`
	Kind   int        `json:"kind"` // 0 CALL 1 CALLCODE 2 DELEGATECALL 3 STATICCALL
	Depth  int        `json:"depth"`
	Caller string     `json:"caller"`
	Addr   uint64     `json:"addr"`
	Input  string     `json:"input"`
	Gas    uint64     `json:"gas"`
	Res    string     `json:"res"` // ok|err|panic
	Ret    string     `json:"ret,omitempty"`
	Err    string     `json:"err,omitempty"`
	Left   uint64     `json:"left"`
	Calls  []hostCall `json:"calls"`
	CmpGas bool       `json:"cmpgas"`
}

func (c abiCase) line() string {
	in, _ := hex.DecodeString(c.Input)
	caller, _ := hex.DecodeString(c.Caller)
	l := items.New("PC").N(uint64(c.Kind)).B(caller).N(c.Addr).B(in).N(c.Gas)
	switch c.Res {
	case "ok":
		ret, _ := hex.DecodeString(c.Ret)
		l.Res(0, ret)
	case "err":
		l.Res(1, []byte(c.Err))
	default:
		l.Res(2, []byte(c.Err))
	}
	l.N(c.Left).Open()
	for _, h := range c.Calls {
		h.item(l)
	}
	l.Close().Bool(c.CmpGas)
	return l.String()
}

func word(v *big.Int) []byte { return common.LeftPadBytes(v.Bytes(), 32) }

func pad32(b []byte) []byte {
	n := (len(b) + 31) / 32 * 32
	return common.RightPadBytes(b, n)
}

// encodeKV is the canonical ABI encoding of (bytes key, bytes value).
func encodeKV(key, value []byte) []byte {
	var out []byte
	off0 := uint64(64)
	off1 := off0 + 32 + uint64(len(pad32(key)))
	out = append(out, word(new(big.Int).SetUint64(off0))...)
	out = append(out, word(new(big.Int).SetUint64(off1))...)
	out = append(out, word(big.NewInt(int64(len(key))))...)
	out = append(out, pad32(key)...)
	out = append(out, word(big.NewInt(int64(len(value))))...)
	out = append(out, pad32(value)...)
	return out
}

func boundaryWords(l int) []*big.Int {
	p := func(e uint) *big.Int { return new(big.Int).Lsh(big.NewInt(1), e) }
	sub := func(a *big.Int, k int64) *big.Int { return new(big.Int).Sub(a, big.NewInt(k)) }
	ws := []*big.Int{big.NewInt(0), big.NewInt(1), big.NewInt(31), big.NewInt(32), big.NewInt(33), big.NewInt(64), big.NewInt(96),
		big.NewInt(int64(l)), big.NewInt(int64(l) + 1), p(63), sub(p(63), 1), sub(p(64), 32), sub(p(64), 33), sub(p(64), 31), sub(p(64), 1), p(64),
		new(big.Int).Add(p(64), big.NewInt(64)), sub(p(256), 1), p(255), sub(p(64), 64), sub(p(64), int64(l))}
	for _, d := range []int64{32, 31, 33, 64, 1} {
		if int64(l)-d >= 0 {
			ws = append(ws, big.NewInt(int64(l)-d))
		}
	}
	return ws
}

func genCtxWriterPayload(r *rng.R) (string, []byte) {
	lens := []int{0, 1, 5, 31, 32, 33, 64, 100}
	key := r.Bytes(lens[r.Intn(len(lens))])
	val := r.Bytes(lens[r.Intn(len(lens))])
	if len(key) > 0 && r.Chance(1, 8) {
		key[0] = 0xEE
	}
	p := encodeKV(key, val)
	switch r.Intn(10) {
	case 0, 1, 2:
		return "valid", p
	case 3: // truncated
		return "truncated", p[:r.Intn(len(p)+1)]
	case 4: // extended
		return "extended", append(p, r.Bytes(r.Intn(70))...)
	case 5, 6, 7: // boundary word in a head or length slot
		ws := boundaryWords(len(p))
		w := ws[r.Intn(len(ws))]
		slots := []int{0, 32, 64, 64 + 32 + len(pad32(key))}
		s := slots[r.Intn(len(slots))]
		q := append([]byte{}, p...)
		copy(q[s:s+32], word(w))
		if r.Chance(1, 3) { // second mutation
			w2 := ws[r.Intn(len(ws))]
			s2 := slots[r.Intn(len(slots))]
			copy(q[s2:s2+32], word(w2))
		}
		return "boundary", q
	case 8: // non-canonical layout: both heads point at the same tail / swapped
		q := append([]byte{}, p...)
		if r.Bool() {
			copy(q[32:64], q[0:32])
		} else {
			a := append([]byte{}, q[0:32]...)
			copy(q[0:32], q[32:64])
			copy(q[32:64], a)
		}
		return "aliased", q
	default:
		return "random", r.Bytes(r.Intn(300))
	}
}

func cmdAbi(args []string) error {
	c := newCommon("abi")
	c.fs.Parse(args)
	r := rng.New(c.seed)
	hostLog := installHost()
	var cases []abiCase
	stats := map[string]int{}

	gases := []uint64{0, 4999, 5000, 5001, 100000, 1 << 40}
	callerAddr := common.HexToAddress("0x00000000000000000000000000000000000ca11e")

	runTop := func(fork string, kind int, addr uint64, input []byte, gas uint64, class string) {
		env := impl.NewEnv(impl.Opts{Fork: fork, JP: true})
		to := common.BigToAddress(new(big.Int).SetUint64(addr))
		env.Prepare(&to)
		*hostLog = (*hostLog)[:0]
		var ret []byte
		var left uint64
		var err error
		caller := vm.AccountRef(callerAddr)
		pan := impl.Guard(func() {
			switch kind {
			case 0:
				ret, left, err = env.EVM.Call(context.Background(), caller, to, input, gas, big.NewInt(0))
			case 1:
				ret, left, err = env.EVM.CallCode(context.Background(), caller, to, input, gas, big.NewInt(0))
			case 2:
				ret, left, err = env.EVM.DelegateCall(context.Background(), caller, to, input, gas)
			default:
				ret, left, err = env.EVM.StaticCall(context.Background(), caller, to, input, gas)
			}
		})
		cs := abiCase{Idx: len(cases), Class: class, Fork: fork, Kind: kind, Depth: 0, Caller: hex.EncodeToString(callerAddr.Bytes()),
			Addr: addr, Input: hex.EncodeToString(input), Gas: gas, Left: left, Calls: append([]hostCall{}, *hostLog...), CmpGas: true}
		switch {
		case pan != "":
			cs.Res, cs.Err = "panic", pan
		case err != nil:
			cs.Res, cs.Err = "err", err.Error()
		default:
			cs.Res, cs.Ret = "ok", hex.EncodeToString(ret)
		}
		stats["class:"+class]++
		stats["outcome:"+cs.Res]++
		stats[fmt.Sprintf("addr:0x%x", addr)]++
		stats[fmt.Sprintf("kind:%d", kind)]++
		cases = append(cases, cs)
	}

	// nested: wrapper contracts W1 -> W2 -> ... -> <kind> precompile
	// via: how the LAST wrapper is reached from the one before it (0 CALL, 1 CALLCODE, 2 DELEGATECALL): with 1 and 2 its code
	// runs in the context of the wrapper before it (proxy / library), which is then the caller of the precompile
	runNested := func(fork string, kind int, depth int, addr uint64, input []byte, class string, via int) {
		if depth < 2 {
			via = 0
		}
		env := impl.NewEnv(impl.Opts{Fork: fork, JP: false})
		pre := common.BigToAddress(new(big.Int).SetUint64(addr))
		ws := make([]common.Address, depth)
		for i := range ws {
			ws[i] = common.BigToAddress(big.NewInt(int64(0x7700 + i)))
		}
		for i := range ws {
			b := asm.New()
			// copy calldata to memory 0
			b.Op(asm.CALLDATASIZE).Push(0).Push(0).Op(asm.CALLDATACOPY)
			if i+1 < depth {
				// CALL next wrapper, forward returndata
				switch {
				case i+1 == depth-1 && via == 1:
					b.Push(0).Push(0).Op(asm.CALLDATASIZE).Push(0).Push(0).PushAddr(ws[i+1]).Op(asm.GAS).Op(asm.CALLCODE)
				case i+1 == depth-1 && via == 2:
					b.Push(0).Push(0).Op(asm.CALLDATASIZE).Push(0).PushAddr(ws[i+1]).Op(asm.GAS).Op(asm.DELEGATECALL)
				default:
					b.Push(0).Push(0).Op(asm.CALLDATASIZE).Push(0).Push(0).PushAddr(ws[i+1]).Op(asm.GAS).Op(asm.CALL)
				}
				b.Op(asm.POP)
				b.Op(asm.RETURNDATASIZE).Push(0).Push(0).Op(asm.RETURNDATACOPY)
				b.Op(asm.RETURNDATASIZE).Push(0).Op(asm.RETURN)
			} else {
				b.Push(0).Push(0).Op(asm.CALLDATASIZE).Push(0)
				switch kind {
				case 0:
					b.Push(0).PushAddr(pre).Op(asm.GAS).Op(asm.CALL)
				case 1:
					b.Push(0).PushAddr(pre).Op(asm.GAS).Op(asm.CALLCODE)
				case 2:
					b.PushAddr(pre).Op(asm.GAS).Op(asm.DELEGATECALL)
				default:
					b.PushAddr(pre).Op(asm.GAS).Op(asm.STATICCALL)
				}
				// return 32-byte success flag followed by returndata
				b.Push(0).Op(asm.MSTORE)
				b.Op(asm.RETURNDATASIZE).Push(0).Push(32).Op(asm.RETURNDATACOPY)
				b.Op(asm.RETURNDATASIZE).Push(32).Op(asm.ADD).Push(0).Op(asm.RETURN)
			}
			env.SetCode(ws[i], b.Bytes())
		}
		env.Prepare(&ws[0])
		*hostLog = (*hostLog)[:0]
		var ret []byte
		var err error
		pan := impl.Guard(func() {
			ret, _, err = env.EVM.Call(context.Background(), vm.AccountRef(callerAddr), ws[0], input, 10_000_000, big.NewInt(0))
		})
		issuer := ws[depth-1]
		if via != 0 {
			issuer = ws[depth-2]
			class += fmt.Sprintf("-via%d", via)
		}
		cs := abiCase{Idx: len(cases), Class: class, Fork: fork, Kind: kind, Depth: depth, Caller: hex.EncodeToString(issuer.Bytes()),
			Addr: addr, Input: hex.EncodeToString(input), Gas: 1 << 40, Calls: append([]hostCall{}, *hostLog...), CmpGas: false}
		switch {
		case pan != "":
			cs.Res, cs.Err = "panic", pan
		case err != nil:
			cs.Res, cs.Err = "err", "outer:"+err.Error()
		case len(ret) >= 32 && ret[31] == 1:
			cs.Res, cs.Ret = "ok", hex.EncodeToString(ret[32:])
		default:
			cs.Res, cs.Err = "err", "inner call failed"
		}
		stats["class:"+class]++
		stats["outcome:"+cs.Res]++
		stats[fmt.Sprintf("nested-depth:%d", depth)]++
		stats[fmt.Sprintf("kind:%d", kind)]++
		cases = append(cases, cs)
	}

	forks := []string{"Berlin", "London", "Shanghai", "Cancun"}
	// fixed corpus first: the boundary head words named by the property on a canonical payload
	base := encodeKV([]byte("key"), []byte("value!"))
	for _, w := range boundaryWords(len(base)) {
		for _, slot := range []int{0, 32, 64, 128} {
			q := append([]byte{}, base...)
			copy(q[slot:slot+32], word(w))
			for kind := 0; kind < 4; kind++ {
				runTop("Berlin", kind, 0x66, q, 100000, "corpus-boundary")
			}
		}
	}
	for kind := 0; kind < 4; kind++ {
		runTop("Cancun", kind, 0x66, base, 100000, "corpus-valid")
		runTop("Cancun", kind, 0x66, nil, 100000, "corpus-empty")
		runTop("Cancun", kind, 0x66, base[:127], 100000, "corpus-short")
		for d := 1; d <= 3; d++ {
			for via := 0; via < 3; via++ {
				runNested("Berlin", kind, d, 0x66, base, "corpus-nested", via)
			}
		}
	}
	for i := 0; i < c.n; i++ {
		fork := forks[r.Intn(len(forks))]
		kind := r.Intn(4)
		gas := gases[r.Intn(len(gases))]
		switch r.Intn(8) {
		case 0:
			runTop(fork, kind, 0x64, r.Bytes(r.Intn(60)), gas, "aspcontext")
		case 1:
			in := r.Bytes(r.Intn(70))
			if len(in) > 0 && r.Chance(1, 6) {
				in[len(in)-1] = 0xEE
			}
			runTop(fork, kind, 0x65, in, gas, "userop")
		case 2:
			class, p := genCtxWriterPayload(r)
			runNested(fork, kind, 1+r.Intn(3), 0x66, p, "nested-"+class, r.Intn(3))
		default:
			class, p := genCtxWriterPayload(r)
			runTop(fork, kind, 0x66, p, gas, class)
		}
	}
	var sb strings.Builder
	for _, cs := range cases {
		sb.WriteString(cs.line())
		sb.WriteString("\n")
	}
	if err := writeFile(c.out, "cases.txt", sb.String()); err != nil {
		return err
	}
	if err := writeJSON(c.out, "cases.json", cases); err != nil {
		return err
	}
	return writeJSON(c.out, "stats.json", stats)
}
