package main

import (
	"context"
	"fmt"
	"math/big"
	"strings"

	"verifharness/internal/asm"
	"verifharness/internal/impl"
	"verifharness/internal/items"
	"verifharness/internal/progen"
	"verifharness/internal/rng"

	"github.com/artela-network/artela-evm/vm"
	actypes "github.com/artela-network/aspect-core/types"
	"github.com/ethereum/go-ethereum/common"
)

func init() { commands["cancelrun"] = cmdCancelRun }

// Cancel() at a chosen moment, deterministically: the tracer calls it from the CaptureState callback of the k-th
// instruction (k ranges over every phase of the execution, the first run without Cancel tells how many there are).
// From then on every frame — the ones running and the ones still to be entered — is recorded: its code and the
// program counters it executes.  Model/Cancel.v says these are a prefix of the straight-line path from the first of them
// (component CN); the oracle below says the same in the property's own words.

type cnFrame struct {
	code []byte
	pcs  []uint64
	ops  []byte
	no   int
	dep  int
}

type cancelTracer struct {
	evm       *vm.EVM
	step      int
	cancelAt  int // -1: never
	cancelled bool
	stack     []*cnFrame
	frames    []*cnFrame
	nframes   int
	bad       []string
}

func (t *cancelTracer) push() {
	t.nframes++
	t.stack = append(t.stack, &cnFrame{no: t.nframes, dep: len(t.stack) + 1})
}
func (t *cancelTracer) pop() {
	if len(t.stack) == 0 {
		t.bad = append(t.bad, "frame callbacks unbalanced (exit without enter)")
		return
	}
	t.stack = t.stack[:len(t.stack)-1]
}
func (t *cancelTracer) CaptureTxStart(gasLimit uint64) {}
func (t *cancelTracer) CaptureTxEnd(restGas uint64)    {}
func (t *cancelTracer) CaptureStart(env *vm.EVM, from common.Address, to common.Address, create bool, input []byte, gas uint64, value *big.Int) {
	t.evm = env
	t.push()
}
func (t *cancelTracer) CaptureEnd(output []byte, gasUsed uint64, err error) { t.pop() }
func (t *cancelTracer) CaptureEnter(typ vm.OpCode, from common.Address, to common.Address, input []byte, gas uint64, value *big.Int) {
	t.push()
}
func (t *cancelTracer) CaptureExit(output []byte, gasUsed uint64, err error) { t.pop() }
func (t *cancelTracer) CaptureState(pc uint64, op vm.OpCode, gas, cost uint64, scope *vm.ScopeContext, rData []byte, depth int, err error) {
	if t.step == t.cancelAt {
		t.evm.Cancel()
		t.cancelled = true
	}
	t.step++
	if !t.cancelled || len(t.stack) == 0 {
		return
	}
	f := t.stack[len(t.stack)-1]
	if depth != len(t.stack) {
		t.bad = append(t.bad, fmt.Sprintf("instruction reported at depth %d inside %d open frames", depth, len(t.stack)))
	}
	if f.code == nil {
		f.code = common.CopyBytes(scope.Contract.Code)
		if f.code == nil {
			f.code = []byte{}
		}
		t.frames = append(t.frames, f)
	}
	f.pcs = append(f.pcs, pc)
	f.ops = append(f.ops, byte(op))
}
func (t *cancelTracer) CaptureFault(pc uint64, op vm.OpCode, gas, cost uint64, scope *vm.ScopeContext, depth int, err error) {
}

type cnCase struct {
	Idx      int      `json:"idx"`
	Run      int      `json:"run"`
	Fork     string   `json:"fork"`
	Shape    string   `json:"shape"`
	Total    int      `json:"steps_without_cancel"`
	CancelAt int      `json:"cancel_at_step"`
	Frame    int      `json:"frame_no"`
	Depth    int      `json:"depth"`
	CodeLen  int      `json:"code_len"`
	After    int      `json:"steps_after_cancel"`
	LastOp   string   `json:"last_op,omitempty"`
	Pcs      []uint64 `json:"pcs,omitempty"`
	Oracle   []string `json:"oracle_fail,omitempty"`
}

func cmdCancelRun(args []string) error {
	c := newCommon("cancelrun")
	c.fs.Parse(args)
	r := rng.New(c.seed)
	u := progen.DefaultUniverse()
	u.Precomp = []common.Address{common.BigToAddress(big.NewInt(4)), common.BigToAddress(big.NewInt(2))}
	installHost()
	impl.InitAspects()
	impl.Provider.Reset()
	impl.Provider.Bind(u.Contracts[1], actypes.PRE_CONTRACT_CALL_METHOD, aspectAddr(1).Hex())
	impl.Provider.Bind(u.Contracts[2], actypes.POST_CONTRACT_CALL_METHOD, aspectAddr(2).Hex(), aspectAddr(3).Hex())
	impl.Provider.Behave = func(id string, pc string, gas int64, req []byte) ([]byte, int64, error) {
		burn := int64(100 + len(req)%50)
		if burn > gas {
			burn = gas
		}
		return []byte{0x01}, gas - burn, nil
	}
	forks := []string{"Byzantium", "Istanbul", "Berlin", "London", "Shanghai", "Cancun"}
	var cases []cnCase
	var sb []string
	stats := map[string]int{}
	for run := 0; run < c.n; run++ {
		rr := r.Fork()
		fork := forks[rr.Intn(len(forks))]
		fi := impl.ForkIndex(fork)
		jp := rr.Bool()
		w := &world{Code: map[common.Address][]byte{}, Storage: map[common.Address]map[common.Hash]common.Hash{}, Balance: map[common.Address]*big.Int{}, Nonce: map[common.Address]uint64{}}
		for _, a := range u.Contracts {
			w.Code[a] = progen.Program(rr, u, progen.Opts{Fork: fi, MaxSnips: 12, Cancun: fork == "Cancun", Journal: true})
			w.Balance[a] = big.NewInt(1000)
		}
		w.Balance[exCaller] = big.NewInt(1_000_000)
		shape := "generated"
		switch rr.Intn(4) {
		case 0: // forever { call the next contract (any call kind); jump back }
			shape = "endless-call-loop"
			b := asm.New()
			top := b.Len()
			b.Op(asm.JUMPDEST)
			kind := rr.Intn(4)
			b.Push(0).Push(0).Push(0).Push(0)
			if kind < 2 {
				b.Push(0)
			}
			b.PushAddr(u.Contracts[1+rr.Intn(len(u.Contracts)-1)]).Push(uint64(20000 + rr.Intn(40000)))
			b.Op([]byte{asm.CALL, asm.CALLCODE, asm.DELEGATECALL, asm.STATICCALL}[kind]).Op(asm.POP)
			b.Push2Fixed(top).Op(asm.JUMP)
			w.Code[u.Contracts[0]] = b.Bytes()
		case 1: // counted loop with a conditional jump, pushes of every width in the body, then the generated program
			shape = "counted-loop"
			b := asm.New()
			b.Push(uint64(3 + rr.Intn(40)))
			lp := b.Len()
			b.Op(asm.JUMPDEST)
			for k := 0; k < 1+rr.Intn(4); k++ {
				b.PushBytes(rr.Bytes(1 + rr.Intn(32))).Op(asm.POP)
			}
			b.Push(1).Op(asm.SWAP1, asm.SUB).Op(asm.DUP1).Push2Fixed(lp).Op(asm.JUMPI).Op(asm.POP)
			w.Code[u.Contracts[0]] = append(b.Bytes(), w.Code[u.Contracts[0]]...)
		}
		gas := uint64(150_000 + rr.Intn(300_000))
		input := rr.Bytes(rr.Intn(30))
		exec := func(cancelAt int) (*cancelTracer, *impl.Env, string) {
			tr := &cancelTracer{cancelAt: cancelAt}
			env := impl.NewEnv(impl.Opts{Fork: fork, JP: jp, Tracer: tr})
			w.apply(env.State)
			to := u.Contracts[0]
			env.Prepare(&to)
			if env.Rules.IsBerlin {
				env.State.AddAddressToAccessList(exCaller)
			}
			pan := impl.Guard(func() {
				env.EVM.Call(context.Background(), vm.AccountRef(exCaller), to, input, gas, big.NewInt(0))
			})
			return tr, env, pan
		}
		base, _, pan0 := exec(-1)
		if pan0 != "" || base.step == 0 {
			continue
		}
		total := base.step
		// several moments per program: the first instruction, the last one, and random ones
		moments := []int{0, total - 1, rr.Intn(total), rr.Intn(total)}
		for _, k := range moments {
			tr, env, pan := exec(k)
			var runOracle []string
			if pan != "" {
				runOracle = append(runOracle, "C17: panic in an execution cancelled at step "+fmt.Sprint(k)+": "+pan)
			}
			for _, b := range tr.bad {
				runOracle = append(runOracle, "C17: after Cancel: "+b)
			}
			if len(tr.stack) != 0 {
				runOracle = append(runOracle, fmt.Sprintf("C17: %d frames announced to the tracer were never closed after Cancel", len(tr.stack)))
			}
			if cur := env.EVM.Tracer().CallTree().Current(); cur != nil {
				runOracle = append(runOracle, fmt.Sprintf("C17: call %d left open in the call tree after a cancelled execution", cur.Index))
			}
			if tr.cancelled && !env.EVM.Cancelled() {
				runOracle = append(runOracle, "C17: Cancelled() reports false after Cancel()")
			}
			if !tr.cancelled {
				runOracle = append(runOracle, fmt.Sprintf("C17: the same execution has %d steps in one run and fewer than %d in the next", total, k+1))
			}
			// run-level case (no frame): carries the run-level oracle
			rc := cnCase{Idx: len(cases), Run: run, Fork: fork, Shape: shape, Total: total, CancelAt: k, Oracle: runOracle}
			cases = append(cases, rc)
			sb = append(sb, items.New("CN").B(nil).Open().Close().String())
			stats["runs"]++
			stats["shape:"+shape]++
			for _, f := range tr.frames {
				// the model evaluator counts program counters in unary: keep its work bounded (the oracle below still applies)
				tooBig := len(f.code) > 16384 && len(f.pcs) > 64 || len(f.pcs) > 4000
				if tooBig {
					stats["frames-too-large-for-the-model-evaluator"]++
				}
				cs := cnCase{Idx: len(cases), Run: run, Fork: fork, Shape: shape, Total: total, CancelAt: k, Frame: f.no, Depth: f.dep, CodeLen: len(f.code), After: len(f.pcs)}
				cs.LastOp = vm.OpCode(f.ops[len(f.ops)-1]).String()
				if len(f.pcs) <= 64 {
					cs.Pcs = f.pcs
				}
				for i := 0; i+1 < len(f.pcs); i++ {
					if op := f.ops[i]; op == 0x56 || op == 0x57 {
						cs.Oracle = append(cs.Oracle, fmt.Sprintf("C17: after Cancel frame %d (depth %d) went on to pc %d after its %s at pc %d: a cancelled execution must stop at the first jump", f.no, f.dep, f.pcs[i+1], vm.OpCode(op), f.pcs[i]))
						break
					}
					if f.pcs[i+1] <= f.pcs[i] {
						cs.Oracle = append(cs.Oracle, fmt.Sprintf("C17: after Cancel frame %d moved backwards from pc %d to pc %d", f.no, f.pcs[i], f.pcs[i+1]))
						break
					}
				}
				if len(f.pcs) > len(f.code)+1 {
					cs.Oracle = append(cs.Oracle, fmt.Sprintf("C17: frame %d executed %d instructions after Cancel, its code has %d bytes", f.no, len(f.pcs), len(f.code)))
				}
				l := items.New("CN")
				if tooBig {
					l.B(nil).Open()
				} else {
					l.B(f.code).Open()
					for _, p := range f.pcs {
						l.N(p)
					}
				}
				l.Close()
				sb = append(sb, l.String())
				cases = append(cases, cs)
				stats["frames"]++
				if f.ops[len(f.ops)-1] == 0x56 || f.ops[len(f.ops)-1] == 0x57 {
					stats["frames-stopped-at-a-jump"]++
				}
				if len(f.pcs) >= 5 {
					stats["frames-with>=5-steps-after-cancel"]++
				}
				if f.pcs[0] == 0 {
					stats["frames-entered-after-cancel"]++
				}
			}
		}
	}
	if err := writeFile(c.out, "cases.txt", strings.Join(sb, "\n")+"\n"); err != nil {
		return err
	}
	if err := writeJSON(c.out, "cases.json", cases); err != nil {
		return err
	}
	return writeJSON(c.out, "stats.json", stats)
}
