package main

import (
	"fmt"
	"github.com/artela-network/artela-evm/vm"
)

func main() {
	fmt.Println(len(vm.PrecompiledContractsBerlin))
}
