// vh — verification harness for artela-evm (built against /repo's current working tree).
package main

import (
	"encoding/json"
	"flag"
	"fmt"
	"os"
	"path/filepath"
)

type cmdFn func(args []string) error

var commands = map[string]cmdFn{}

func main() {
	if len(os.Args) < 2 {
		fmt.Fprintln(os.Stderr, "usage: vh <command> [flags]")
		os.Exit(2)
	}
	fn, ok := commands[os.Args[1]]
	if !ok {
		fmt.Fprintln(os.Stderr, "unknown command", os.Args[1])
		os.Exit(2)
	}
	if err := fn(os.Args[2:]); err != nil {
		fmt.Fprintln(os.Stderr, "vh:", err)
		os.Exit(3)
	}
}

// common flags
type cmdFlags struct {
	seed  uint64
	n     int
	out   string
	tier  string
	fs    *flag.FlagSet
	extra map[string]*string
}

func newCommon(name string) *cmdFlags {
	c := &cmdFlags{fs: flag.NewFlagSet(name, flag.ExitOnError)}
	c.fs.Uint64Var(&c.seed, "seed", 1, "PRNG seed")
	c.fs.IntVar(&c.n, "n", 200, "number of generated cases")
	c.fs.StringVar(&c.out, "out", ".", "output directory")
	c.fs.StringVar(&c.tier, "tier", "quick", "quick|thorough")
	return c
}

func writeFile(dir, name, content string) error {
	if err := os.MkdirAll(dir, 0o755); err != nil {
		return err
	}
	return os.WriteFile(filepath.Join(dir, name), []byte(content), 0o644)
}

func writeJSON(dir, name string, v interface{}) error {
	b, err := json.MarshalIndent(v, "", " ")
	if err != nil {
		return err
	}
	return writeFile(dir, name, string(b))
}
