package main

// calltracer — C19: drive the real callTracer / flatCallTracer with generated callback streams (well-nested
// trees with Aspects on every join point and calls from inside Aspects, an enumerated family of shapes, and
// malformed streams), emit each stream with the result the tracer gave as a TR case for the Coq model, and
// check the property's own wording (every frame exactly once under its issuer, sub-trace counts, unique and
// prefix-closed trace addresses) directly on the JSON.

import (
	"encoding/json"
	"errors"
	"fmt"
	"math/big"
	"sort"
	"strings"

	"verifharness/internal/impl"
	"verifharness/internal/items"
	"verifharness/internal/rng"

	"github.com/artela-network/artela-evm/tracers"
	_ "github.com/artela-network/artela-evm/tracers/native"
	"github.com/artela-network/artela-evm/vm"
	actypes "github.com/artela-network/aspect-core/types"
	"github.com/ethereum/go-ethereum/common"
	"github.com/ethereum/go-ethereum/common/hexutil"
)

func init() { commands["calltracer"] = cmdCallTracer }

type ctNode struct {
	id    int
	typ   vm.OpCode
	from  common.Address
	to    common.Address
	input []byte
	gas   uint64
	value *big.Int
	out   []byte
	used  uint64
	err   error
	pre   []*ctAsp
	body  []*ctNode
	post  []*ctAsp
}

type ctAsp struct {
	id     int
	jp     actypes.JoinPointRunType
	from   common.Address
	to     common.Address
	aspect common.Address
	input  []byte
	gas    uint64
	value  *big.Int
	left   uint64
	ret    []byte
	err    error
	calls  []*ctNode
}

type aspTracer interface {
	tracers.Tracer
	actypes.AspectLogger
}

// one callback: how to render it for the model and how to deliver it
type ctEvent struct {
	item func(l *items.L)
	fire func(t aspTracer, env *vm.EVM)
}

func addrN(a common.Address) *big.Int { return new(big.Int).SetBytes(a[:]) }

func optErr(l *items.L, err error) {
	l.Open()
	if err != nil {
		l.S(err.Error())
	}
	l.Close()
}
func optBig(l *items.L, v *big.Int) {
	l.Open()
	if v != nil {
		l.Big(v)
	}
	l.Close()
}

func evTxStart(g uint64) ctEvent {
	return ctEvent{func(l *items.L) { l.Open().N(0).N(g).Close() }, func(t aspTracer, _ *vm.EVM) { t.CaptureTxStart(g) }}
}
func evTxEnd(g uint64) ctEvent {
	return ctEvent{func(l *items.L) { l.Open().N(1).N(g).Close() }, func(t aspTracer, _ *vm.EVM) { t.CaptureTxEnd(g) }}
}
func evStart(from, to common.Address, create bool, input []byte, gas uint64, value *big.Int) ctEvent {
	return ctEvent{func(l *items.L) {
		l.Open().N(2).Big(addrN(from)).Big(addrN(to)).Bool(create).B(input).N(gas).Big(value).Close()
	}, func(t aspTracer, env *vm.EVM) { t.CaptureStart(env, from, to, create, input, gas, value) }}
}
func evEnd(out []byte, used uint64, err error) ctEvent {
	return ctEvent{func(l *items.L) { l.Open().N(3).B(out).N(used); optErr(l, err); l.Close() },
		func(t aspTracer, _ *vm.EVM) { t.CaptureEnd(out, used, err) }}
}
func evEnter(typ vm.OpCode, from, to common.Address, input []byte, gas uint64, value *big.Int) ctEvent {
	return ctEvent{func(l *items.L) {
		l.Open().N(4).N(uint64(typ)).Big(addrN(from)).Big(addrN(to)).B(input).N(gas)
		optBig(l, value)
		l.Close()
	}, func(t aspTracer, _ *vm.EVM) { t.CaptureEnter(typ, from, to, input, gas, value) }}
}
func evExit(out []byte, used uint64, err error) ctEvent {
	return ctEvent{func(l *items.L) { l.Open().N(5).B(out).N(used); optErr(l, err); l.Close() },
		func(t aspTracer, _ *vm.EVM) { t.CaptureExit(out, used, err) }}
}
func evAspEnter(jp actypes.JoinPointRunType, from, to, asp common.Address, input []byte, gas uint64, value *big.Int) ctEvent {
	return ctEvent{func(l *items.L) {
		l.Open().N(6).N(uint64(jp)).Big(addrN(from)).Big(addrN(to)).Big(addrN(asp)).B(input).N(gas)
		optBig(l, value)
		l.Close()
	}, func(t aspTracer, _ *vm.EVM) {
		n := uint64(7)
		t.CaptureAspectEnter(jp, from, to, asp, input, gas, value, &actypes.PreContractCallInput{Block: &actypes.BlockInput{Number: &n}})
	}}
}
func evAspExit(jp actypes.JoinPointRunType, left uint64, ret []byte, err error) ctEvent {
	return ctEvent{func(l *items.L) { l.Open().N(7).N(uint64(jp)).N(left).B(ret); optErr(l, err); l.Close() },
		func(t aspTracer, _ *vm.EVM) {
			t.CaptureAspectExit(jp, &actypes.AspectExecutionResult{Gas: left, Ret: ret, Err: err})
		}}
}

func (n *ctNode) events(out *[]ctEvent) {
	*out = append(*out, evEnter(n.typ, n.from, n.to, n.input, n.gas, n.value))
	n.inner(out)
	*out = append(*out, evExit(n.out, n.used, n.err))
}
func (n *ctNode) inner(out *[]ctEvent) {
	for _, a := range n.pre {
		a.events(out)
	}
	for _, c := range n.body {
		c.events(out)
	}
	for _, a := range n.post {
		a.events(out)
	}
}
func (a *ctAsp) events(out *[]ctEvent) {
	*out = append(*out, evAspEnter(a.jp, a.from, a.to, a.aspect, a.input, a.gas, a.value))
	for _, c := range a.calls {
		c.events(out)
	}
	*out = append(*out, evAspExit(a.jp, a.left, a.ret, a.err))
}

type ctTx struct {
	gasLimit, rest uint64
	pretx, posttx  []*ctAsp
	top            *ctNode // typ CALL or CREATE; pre/body/post are the top frame's
}

func (x *ctTx) events() []ctEvent {
	var out []ctEvent
	out = append(out, evTxStart(x.gasLimit))
	for _, a := range x.pretx {
		a.events(&out)
	}
	out = append(out, evStart(x.top.from, x.top.to, x.top.typ == vm.CREATE, x.top.input, x.top.gas, x.top.value))
	x.top.inner(&out)
	out = append(out, evEnd(x.top.out, x.top.used, x.top.err))
	for _, a := range x.posttx {
		a.events(&out)
	}
	out = append(out, evTxEnd(x.rest))
	return out
}

// ---- generation

var ctErrors = []error{nil, nil, nil, vm.ErrExecutionReverted, vm.ErrOutOfGas, errors.New("invalid jump destination"),
	errors.New("invalid opcode: opcode 0xfe not defined"), errors.New("stack underflow (0 <=> 2)"), errors.New("aspect failed"), vm.ErrDepth}

var ctTypes = []vm.OpCode{vm.CALL, vm.CALL, vm.CALL, vm.STATICCALL, vm.DELEGATECALL, vm.CALLCODE, vm.CREATE, vm.CREATE2, vm.SELFDESTRUCT}

type ctGen struct {
	r      *rng.R
	nextID int
	shape  *ctShape // non-nil: enumerated shape instead of random widths
}

type ctShape struct {
	pretx, pre, post, posttx int // Aspects on the four transaction-level join points of the top frame
	aspCalls                 int // calls made inside each Aspect
	body                     int // calls of the top frame
	cpre, cpost              int // Aspects on the join points of each inner call
	depth                    int
}

func (g *ctGen) addr() common.Address {
	switch g.r.Intn(6) {
	case 0:
		return common.BytesToAddress([]byte{byte(1 + g.r.Intn(10))}) // 1..9 precompiles, 10 is not one
	case 1:
		return common.BytesToAddress([]byte{byte(99 + g.r.Intn(5))}) // 100..102 Artela precompiles, 99 / 103 are not
	default:
		return common.BytesToAddress([]byte{0xc0, byte(g.r.Intn(6))})
	}
}

// every frame carries its id in the first two input bytes, so the result can be matched to the tree
func (g *ctGen) input() (int, []byte) {
	g.nextID++
	b := append([]byte{byte(g.nextID >> 8), byte(g.nextID)}, g.r.Bytes(g.r.Intn(6))...)
	return g.nextID, b
}

func (g *ctGen) outErr() ([]byte, error) {
	err := ctErrors[g.r.Intn(len(ctErrors))]
	var out []byte
	switch g.r.Intn(4) {
	case 0:
	case 1:
		out = g.r.Bytes(1 + g.r.Intn(3))
	default:
		out = g.r.Bytes(4 + g.r.Intn(40))
	}
	return out, err
}

func (g *ctGen) node(depth int, width func() int) *ctNode {
	n := &ctNode{typ: ctTypes[g.r.Intn(len(ctTypes))], from: g.addr(), to: g.addr(), gas: uint64(g.r.Intn(1 << 20))}
	n.id, n.input = g.input()
	n.used = uint64(g.r.Intn(int(n.gas) + 1))
	switch n.typ {
	case vm.STATICCALL, vm.DELEGATECALL:
		if g.r.Intn(4) == 0 {
			n.value = big.NewInt(int64(g.r.Intn(9)))
		}
	default:
		n.value = big.NewInt(int64(g.r.Intn(1000)))
		if g.r.Intn(8) == 0 {
			n.value = nil
		}
	}
	n.out, n.err = g.outErr()
	g.fill(n, depth, false)
	return n
}

func (g *ctGen) fill(n *ctNode, depth int, top bool) {
	var npre, nbody, npost, ncalls int
	if depth < 0 {
		return // a leaf: no join points of its own
	}
	if s := g.shape; s != nil {
		if top {
			npre, nbody, npost = s.pre, s.body, s.post
		} else {
			npre, npost = s.cpre, s.cpost
			if depth > 0 {
				nbody = 1
			}
		}
		ncalls = s.aspCalls
	} else {
		w := func(max int) int {
			if g.r.Intn(3) == 0 {
				return 0
			}
			return g.r.Intn(max + 1)
		}
		npre, npost, ncalls = w(3), w(3), -1
		if depth > 0 {
			nbody = w(3)
		}
	}
	for i := 0; i < npre; i++ {
		n.pre = append(n.pre, g.asp(actypes.JoinPointRunType_PreContractCall, n, depth, ncalls))
	}
	for i := 0; i < nbody; i++ {
		n.body = append(n.body, g.node(depth-1, nil))
	}
	for i := 0; i < npost; i++ {
		n.post = append(n.post, g.asp(actypes.JoinPointRunType_PostContractCall, n, depth, ncalls))
	}
}

func (g *ctGen) asp(jp actypes.JoinPointRunType, n *ctNode, depth, ncalls int) *ctAsp {
	a := &ctAsp{jp: jp, from: g.addr(), to: g.addr(), aspect: common.BytesToAddress([]byte{0xa5, byte(g.r.Intn(4))}), gas: uint64(g.r.Intn(1 << 20))}
	a.id, a.input = g.input()
	a.left = uint64(g.r.Intn(int(a.gas) + 1))
	if g.r.Intn(3) != 0 {
		a.value = big.NewInt(int64(g.r.Intn(50)))
	}
	a.ret, a.err = g.outErr()
	if g.r.Intn(5) == 0 {
		a.err = errors.New("execution reverted") // an Aspect's own error value, not the EVM's sentinel
	}
	if ncalls < 0 {
		ncalls = 0
		if g.r.Intn(2) == 0 {
			ncalls = g.r.Intn(3)
		}
	}
	for i := 0; i < ncalls; i++ {
		d := depth - 1
		if d > 1 {
			d = 1
		}
		a.calls = append(a.calls, g.node(d, nil))
	}
	return a
}

func (g *ctGen) tx(depth int) *ctTx {
	x := &ctTx{gasLimit: uint64(100000 + g.r.Intn(1<<22))}
	x.rest = uint64(g.r.Intn(int(x.gasLimit)))
	npretx, nposttx, ncalls := 0, 0, -1
	if s := g.shape; s != nil {
		npretx, nposttx, ncalls = s.pretx, s.posttx, s.aspCalls
	} else {
		if g.r.Intn(2) == 0 {
			npretx = g.r.Intn(4)
		}
		if g.r.Intn(2) == 0 {
			nposttx = g.r.Intn(4)
		}
	}
	top := &ctNode{typ: vm.CALL, from: g.addr(), to: g.addr(), gas: x.gasLimit - 21000, value: big.NewInt(int64(g.r.Intn(100)))}
	if g.r.Intn(5) == 0 {
		top.typ = vm.CREATE
	}
	for i := 0; i < npretx; i++ {
		x.pretx = append(x.pretx, g.asp(actypes.JoinPointRunType_PreTxExecute, top, depth, ncalls))
	}
	top.id, top.input = g.input()
	top.out, top.err = g.outErr()
	top.used = uint64(g.r.Intn(int(top.gas)))
	g.fill(top, depth, true)
	x.top = top
	for i := 0; i < nposttx; i++ {
		x.posttx = append(x.posttx, g.asp(actypes.JoinPointRunType_PostTxExecute, top, depth, ncalls))
	}
	return x
}

// ---- the observed results as items

var jpByName = map[string]uint64{"verifyTx": 1, "preTxExecute": 2, "preContractCall": 4, "postContractCall": 8, "postTxExecute": 16}

func hexN(l *items.L, v interface{}) error {
	s, _ := v.(string)
	if s == "" {
		l.N(0)
		return nil
	}
	b, ok := new(big.Int).SetString(strings.TrimPrefix(s, "0x"), 16)
	if !ok {
		return fmt.Errorf("bad number %q", s)
	}
	l.Big(b)
	return nil
}
func hexB(l *items.L, v interface{}) {
	s, _ := v.(string)
	b, _ := hexutil.Decode(s)
	l.B(b)
}
func optHexN(l *items.L, v interface{}) {
	l.Open()
	if s, ok := v.(string); ok {
		b, _ := new(big.Int).SetString(strings.TrimPrefix(s, "0x"), 16)
		l.Big(b)
	}
	l.Close()
}

func frameItem(l *items.L, f map[string]interface{}) error {
	ts, _ := f["type"].(string)
	op := vm.StringToOp(ts)
	l.Open().N(uint64(op))
	hexN(l, f["from"])
	optHexN(l, f["to"])
	hexB(l, f["input"])
	hexN(l, f["gas"])
	hexN(l, f["gasUsed"])
	hexB(l, f["output"])
	es, _ := f["error"].(string)
	l.S(es)
	l.Open()
	if cs, ok := f["calls"].([]interface{}); ok {
		for _, c := range cs {
			if err := frameItem(l, c.(map[string]interface{})); err != nil {
				return err
			}
		}
	}
	l.Close().Open()
	if js, ok := f["joinPoints"].([]interface{}); ok {
		for _, j := range js {
			a := j.(map[string]interface{})
			jn, _ := a["type"].(string)
			jp, ok := jpByName[jn]
			if !ok && jn != "" {
				return fmt.Errorf("unknown join point %q", jn)
			}
			l.Open().N(jp)
			hexN(l, a["aspect"])
			hexN(l, a["from"])
			hexN(l, a["to"])
			hexB(l, a["input"])
			hexN(l, a["gas"])
			hexN(l, a["gasUsed"])
			hexB(l, a["output"])
			aes, _ := a["error"].(string)
			l.S(aes)
			l.Open()
			if cs, ok := a["calls"].([]interface{}); ok {
				for _, c := range cs {
					if err := frameItem(l, c.(map[string]interface{})); err != nil {
						return err
					}
				}
			}
			l.Close()
			hexN(l, a["value"])
			l.Close()
		}
	}
	l.Close()
	optHexN(l, f["value"])
	l.Open()
	if lgs, ok := f["logs"].([]interface{}); ok {
		for _, x := range lgs {
			lg := x.(map[string]interface{})
			l.Open()
			hexN(l, lg["address"])
			l.Open()
			if ts, ok := lg["topics"].([]interface{}); ok {
				for _, t := range ts {
					hexN(l, t)
				}
			}
			l.Close()
			hexB(l, lg["data"])
			l.Close()
		}
	}
	l.Close()
	l.Close()
	return nil
}

var flatTypeCode = map[string]uint64{"call": 0xf1, "staticcall": 0xfa, "delegatecall": 0xf4, "callcode": 0xf2}

func flatItem(l *items.L, f map[string]interface{}) error {
	act, _ := f["action"].(map[string]interface{})
	res, hasRes := f["result"].(map[string]interface{})
	l.Open().Open()
	if ta, ok := f["traceAddress"].([]interface{}); ok {
		for _, x := range ta {
			l.N(uint64(x.(float64)))
		}
	}
	l.Close()
	l.N(uint64(f["subtraces"].(float64)))
	_, isAsp := act["aspect"]
	l.Bool(isAsp)
	es, _ := f["error"].(string)
	l.S(es)
	typ, _ := f["type"].(string)
	ct, _ := act["callType"].(string)
	var from, to, value, input interface{}
	switch {
	case isAsp:
		jp := uint64(0)
		for name, v := range jpByName {
			if strings.ToLower(name) == ct {
				jp = v
			}
		}
		l.N(jp)
		from, to, value, input = act["from"], act["to"], act["value"], act["input"]
	case typ == "create":
		// CREATE and CREATE2 both flatten to "create"; the model is told which by the harness-side oracle only
		l.N(0xf0)
		from, value, input = act["from"], act["value"], act["init"]
		if hasRes {
			to = res["address"]
		}
	case typ == "suicide":
		l.N(0xff)
		from, to, value = act["address"], act["refundAddress"], act["balance"]
	case typ == "call":
		c, ok := flatTypeCode[ct]
		if !ok {
			return fmt.Errorf("unknown callType %q", ct)
		}
		l.N(c)
		from, to, value, input = act["from"], act["to"], act["value"], act["input"]
	default:
		return fmt.Errorf("unknown flat type %q", typ)
	}
	hexN(l, from)
	optHexN(l, to)
	hexN(l, act["gas"])
	hexB(l, input)
	optHexN(l, value)
	l.Bool(hasRes)
	if hasRes {
		hexN(l, res["gasUsed"])
		if typ == "create" {
			hexB(l, res["code"])
		} else {
			hexB(l, res["output"])
		}
	} else {
		l.N(0).B(nil)
	}
	l.Close()
	return nil
}

// ---- direct oracles on the JSON (the property's wording, independent of the Coq model)

type ctParent struct {
	parent int
	asp    bool
}

func (x *ctTx) parents(onlyTop bool, dropped func(n *ctNode) bool) map[int]ctParent {
	m := map[int]ctParent{x.top.id: {0, false}}
	var walkN func(n *ctNode)
	walkA := func(a *ctAsp, owner int) {
		if onlyTop {
			// no inner frame exists to hold it: the Aspect executions of inner calls are reported under the top frame
			m[a.id] = ctParent{x.top.id, true}
			for _, c := range a.calls {
				walkN(c)
			}
			return
		}
		m[a.id] = ctParent{owner, true}
		for _, c := range a.calls {
			if dropped(c) {
				continue
			}
			m[c.id] = ctParent{a.id, false}
			walkN(c)
		}
	}
	walkN = func(n *ctNode) {
		for _, a := range n.pre {
			walkA(a, n.id)
		}
		for _, c := range n.body {
			if onlyTop {
				walkN(c)
				continue
			}
			if dropped(c) {
				continue
			}
			m[c.id] = ctParent{n.id, false}
			walkN(c)
		}
		for _, a := range n.post {
			walkA(a, n.id)
		}
	}
	// the flat tracer learns the active precompiles at CaptureStart: calls made by pre-transaction Aspects are not filtered
	keep := dropped
	dropped = func(*ctNode) bool { return false }
	for _, a := range x.pretx {
		walkA(a, x.top.id)
	}
	dropped = keep
	walkN(x.top)
	for _, a := range x.posttx {
		walkA(a, x.top.id)
	}
	return m
}

func idOf(v interface{}) int {
	s, _ := v.(string)
	b, _ := hexutil.Decode(s)
	if len(b) < 2 {
		return -1
	}
	return int(b[0])<<8 | int(b[1])
}

// nestedParents walks the callTracer JSON.
func nestedParents(f map[string]interface{}, parent int, out map[int][]ctParent) {
	id := idOf(f["input"])
	out[id] = append(out[id], ctParent{parent, false})
	if cs, ok := f["calls"].([]interface{}); ok {
		for _, c := range cs {
			nestedParents(c.(map[string]interface{}), id, out)
		}
	}
	if js, ok := f["joinPoints"].([]interface{}); ok {
		for _, j := range js {
			a := j.(map[string]interface{})
			aid := idOf(a["input"])
			out[aid] = append(out[aid], ctParent{id, true})
			if cs, ok := a["calls"].([]interface{}); ok {
				for _, c := range cs {
					nestedParents(c.(map[string]interface{}), aid, out)
				}
			}
		}
	}
}

// allAspects collects the Aspect executions of the tree by id.
func (x *ctTx) allAspects() map[int]*ctAsp {
	m := map[int]*ctAsp{}
	var walkN func(n *ctNode)
	walkAs := func(as []*ctAsp) {
		for _, a := range as {
			m[a.id] = a
			for _, c := range a.calls {
				walkN(c)
			}
		}
	}
	walkN = func(n *ctNode) {
		walkAs(n.pre)
		for _, c := range n.body {
			walkN(c)
		}
		walkAs(n.post)
	}
	walkAs(x.pretx)
	walkN(x.top)
	walkAs(x.posttx)
	return m
}

// checkAspectResult: each Aspect execution carries its own gas used, output and error.
func checkAspectResult(a *ctAsp, gasUsed, output, errText interface{}, hasResult bool) []string {
	var bad []string
	es, _ := errText.(string)
	want := ""
	if a.err != nil {
		want = a.err.Error()
	}
	if parity, ok := map[string]string{"out of gas": "Out of gas", "execution reverted": "Reverted", "invalid jump destination": "Bad jump destination", "max call depth exceeded": ""}[want]; ok && parity != "" && es == parity {
		es = want
	}
	if strings.HasPrefix(want, "invalid opcode:") && es == "Bad instruction" || strings.HasPrefix(want, "stack underflow") && es == "Stack underflow" {
		es = want
	}
	if es != want {
		bad = append(bad, fmt.Sprintf("C19: Aspect execution %d ended with error %q but is reported with %q", a.id, want, es))
	}
	if !hasResult {
		// the flat format drops the result of a failed frame, but a reverted one keeps it (the output is the revert data)
		if want == "" || want == "execution reverted" {
			bad = append(bad, fmt.Sprintf("C19: Aspect execution %d (error %q) is reported without its result (gas used, output)", a.id, want))
		}
		return bad
	}
	gs, _ := gasUsed.(string)
	g, _ := new(big.Int).SetString(strings.TrimPrefix(gs, "0x"), 16)
	if g == nil || g.Uint64() != a.gas-a.left {
		bad = append(bad, fmt.Sprintf("C19: Aspect execution %d used %d gas but is reported with %v", a.id, a.gas-a.left, gs))
	}
	os, _ := output.(string)
	ob, _ := hexutil.Decode(os)
	if string(ob) != string(a.ret) {
		bad = append(bad, fmt.Sprintf("C19: Aspect execution %d returned %x but is reported with %x", a.id, a.ret, ob))
	}
	return bad
}

func nestedAspectResults(f map[string]interface{}, want map[int]*ctAsp) []string {
	var bad []string
	if cs, ok := f["calls"].([]interface{}); ok {
		for _, c := range cs {
			bad = append(bad, nestedAspectResults(c.(map[string]interface{}), want)...)
		}
	}
	if js, ok := f["joinPoints"].([]interface{}); ok {
		for _, j := range js {
			a := j.(map[string]interface{})
			if w := want[idOf(a["input"])]; w != nil {
				bad = append(bad, checkAspectResult(w, a["gasUsed"], a["output"], a["error"], true)...)
			}
			if cs, ok := a["calls"].([]interface{}); ok {
				for _, c := range cs {
					bad = append(bad, nestedAspectResults(c.(map[string]interface{}), want)...)
				}
			}
		}
	}
	return bad
}

func compareParents(want map[int]ctParent, got map[int][]ctParent) []string {
	var bad []string
	for id, w := range want {
		g := got[id]
		switch {
		case len(g) == 0:
			bad = append(bad, fmt.Sprintf("C19: frame %d (issued by %d) is missing from the trace", id, w.parent))
		case len(g) > 1:
			bad = append(bad, fmt.Sprintf("C19: frame %d appears %d times in the trace", id, len(g)))
		case g[0] != w:
			bad = append(bad, fmt.Sprintf("C19: frame %d was issued by %d (aspect=%v) but is reported under %d (aspect=%v)", id, w.parent, w.asp, g[0].parent, g[0].asp))
		}
	}
	for id := range got {
		if _, ok := want[id]; !ok {
			bad = append(bad, fmt.Sprintf("C19: the trace contains frame %d, which the stream never opened (or which should be filtered)", id))
		}
	}
	sort.Strings(bad)
	if len(bad) > 4 {
		bad = bad[:4]
	}
	return bad
}

func addrKey(a []interface{}) string {
	var sb strings.Builder
	for _, x := range a {
		fmt.Fprintf(&sb, "%d.", int(x.(float64)))
	}
	return sb.String()
}

// flatOracle: unique + prefix-closed addresses, subtraces = number of emitted children, and each frame under its issuer.
func flatOracle(fl []interface{}, want map[int]ctParent) []string {
	var bad []string
	byAddr := map[string]int{}
	children := map[string]int{}
	idAt := map[string]int{}
	for _, e := range fl {
		f := e.(map[string]interface{})
		ta, _ := f["traceAddress"].([]interface{})
		k := addrKey(ta)
		byAddr[k]++
		if len(ta) > 0 {
			children[addrKey(ta[:len(ta)-1])]++
		}
		act := f["action"].(map[string]interface{})
		in := act["input"]
		if f["type"] == "create" {
			in = act["init"]
		}
		idAt[k] = idOf(in)
	}
	got := map[int][]ctParent{}
	for _, e := range fl {
		f := e.(map[string]interface{})
		ta, _ := f["traceAddress"].([]interface{})
		k := addrKey(ta)
		if byAddr[k] > 1 {
			bad = append(bad, fmt.Sprintf("C19: trace address [%s] is used by %d frames", k, byAddr[k]))
		}
		parent := 0
		if len(ta) > 0 {
			pk := addrKey(ta[:len(ta)-1])
			if byAddr[pk] == 0 {
				bad = append(bad, fmt.Sprintf("C19: trace address [%s] has no parent frame [%s] (not prefix-closed)", k, pk))
			}
			parent = idAt[pk]
		}
		if st := int(f["subtraces"].(float64)); st != children[k] {
			bad = append(bad, fmt.Sprintf("C19: frame [%s] says subtraces=%d but %d children are emitted", k, st, children[k]))
		}
		act := f["action"].(map[string]interface{})
		_, isAsp := act["aspect"]
		if f["type"] != "suicide" {
			got[idAt[k]] = append(got[idAt[k]], ctParent{parent, isAsp})
		}
	}
	// selfdestruct frames carry no input: leave them out of the id comparison
	w2 := map[int]ctParent{}
	for id, p := range want {
		w2[id] = p
	}
	bad = append(bad, compareParents(w2, got)...)
	sort.Strings(bad)
	if len(bad) > 5 {
		bad = bad[:5]
	}
	return bad
}

// ---- running

type ctCase struct {
	Idx     int      `json:"idx"`
	Stream  string   `json:"stream"` // tree | shape | malformed
	Tracer  string   `json:"tracer"`
	Config  string   `json:"config"`
	Events  int      `json:"events"`
	Frames  int      `json:"frames"`
	Aspects int      `json:"aspects"`
	AspCall int      `json:"calls_inside_aspects"`
	MultiJP int      `json:"join_points_with_several_aspects"`
	Result  string   `json:"result"`
	Oracle  []string `json:"oracle_fail,omitempty"`
	Line    string   `json:"-"`
}

func (x *ctTx) stats(cs *ctCase) {
	var walkN func(n *ctNode)
	walkAs := func(as []*ctAsp) {
		if len(as) > 1 {
			cs.MultiJP++
		}
		for _, a := range as {
			cs.Aspects++
			cs.AspCall += len(a.calls)
			for _, c := range a.calls {
				walkN(c)
			}
		}
	}
	walkN = func(n *ctNode) {
		cs.Frames++
		walkAs(n.pre)
		for _, c := range n.body {
			walkN(c)
		}
		walkAs(n.post)
	}
	walkAs(x.pretx)
	walkN(x.top)
	walkAs(x.posttx)
}

func hasSuicide(x *ctTx) bool {
	found := false
	var walkN func(n *ctNode)
	walkAs := func(as []*ctAsp) {
		for _, a := range as {
			for _, c := range a.calls {
				walkN(c)
			}
		}
	}
	walkN = func(n *ctNode) {
		if n.typ == vm.SELFDESTRUCT {
			found = true
		}
		walkAs(n.pre)
		for _, c := range n.body {
			walkN(c)
		}
		walkAs(n.post)
	}
	walkAs(x.pretx)
	walkN(x.top)
	walkAs(x.posttx)
	return found
}

func cmdCallTracer(args []string) error {
	c := newCommon("calltracer")
	c.fs.Parse(args)
	r := rng.New(c.seed)
	env := impl.NewEnv(impl.Opts{Fork: "Cancun"})
	pre := map[common.Address]bool{}
	for _, a := range vm.ActivePrecompiles(env.Rules) {
		pre[a] = true
	}
	var cases []ctCase
	stats := map[string]int{}
	var sb strings.Builder

	run := func(stream string, evs []ctEvent, x *ctTx, kind, cfgA, cfgB int) {
		cs := ctCase{Idx: len(cases), Stream: stream, Events: len(evs)}
		var name, cfg string
		if kind == 0 {
			name = "callTracer"
			cfg = fmt.Sprintf(`{"onlyTopCall":%v,"withLog":%v}`, cfgA == 1, cfgB == 1)
		} else {
			name = "flatCallTracer"
			cfg = fmt.Sprintf(`{"includePrecompiles":%v,"convertParityErrors":%v}`, cfgA == 1, cfgB == 1)
		}
		cs.Tracer, cs.Config = name, cfg
		if x != nil {
			x.stats(&cs)
		}
		l := items.New("TR").N(uint64(kind)).N(uint64(cfgA)).N(uint64(cfgB))
		l.Open()
		for _, e := range evs {
			e.item(l)
		}
		l.Close()
		var raw json.RawMessage
		var rerr error
		pan := impl.Guard(func() {
			t, err := tracers.DefaultDirectory.New(name, &tracers.Context{}, json.RawMessage(cfg))
			if err != nil {
				panic(err)
			}
			at := t.(aspTracer)
			for _, e := range evs {
				e.fire(at, env.EVM)
			}
			raw, rerr = t.GetResult()
		})
		switch {
		case pan != "":
			cs.Result = "panic"
			cs.Oracle = append(cs.Oracle, "C19: "+name+" panicked: "+firstLine(pan))
			l.Res(2, []byte(firstLine(pan)))
		case rerr != nil:
			cs.Result = "error"
			l.Res(1, []byte(rerr.Error()))
			if x != nil {
				cs.Oracle = append(cs.Oracle, "C19: "+name+" failed on a well-nested stream: "+rerr.Error())
			}
		case kind == 0:
			cs.Result = "ok"
			var f map[string]interface{}
			if err := json.Unmarshal(raw, &f); err != nil {
				return
			}
			l.Open().N(0)
			if err := frameItem(l, f); err != nil {
				cs.Oracle = append(cs.Oracle, "C19: result not understood: "+err.Error())
			}
			l.Close()
			if x != nil {
				got := map[int][]ctParent{}
				nestedParents(f, 0, got)
				cs.Oracle = append(cs.Oracle, compareParents(x.parents(cfgA == 1, func(*ctNode) bool { return false }), got)...)
				ar := nestedAspectResults(f, x.allAspects())
				if len(ar) > 3 {
					ar = ar[:3]
				}
				cs.Oracle = append(cs.Oracle, ar...)
			}
		default:
			cs.Result = "ok"
			var fl []interface{}
			if err := json.Unmarshal(raw, &fl); err != nil {
				return
			}
			l.Open().N(0).Open()
			for _, e := range fl {
				if err := flatItem(l, e.(map[string]interface{})); err != nil {
					cs.Oracle = append(cs.Oracle, "C19: result not understood: "+err.Error())
				}
			}
			l.Close().Close()
			if x != nil && !hasSuicide(x) {
				drop := func(n *ctNode) bool { return cfgA == 0 && (n.typ == vm.CALL || n.typ == vm.STATICCALL) && pre[n.to] }
				cs.Oracle = append(cs.Oracle, flatOracle(fl, x.parents(false, drop))...)
				asp := x.allAspects()
				var ar []string
				for _, e := range fl {
					f := e.(map[string]interface{})
					act := f["action"].(map[string]interface{})
					if _, isAsp := act["aspect"]; !isAsp {
						continue
					}
					if w := asp[idOf(act["input"])]; w != nil {
						res, has := f["result"].(map[string]interface{})
						ar = append(ar, checkAspectResult(w, res["gasUsed"], res["output"], f["error"], has)...)
					}
				}
				if len(ar) > 3 {
					ar = ar[:3]
				}
				cs.Oracle = append(cs.Oracle, ar...)
			}
		}
		cs.Line = l.String()
		sb.WriteString(cs.Line + "\n")
		stats["stream:"+stream]++
		stats["tracer:"+name]++
		stats["result:"+cs.Result]++
		if cs.AspCall > 0 {
			stats["with calls inside an Aspect"]++
		}
		if cs.MultiJP > 0 {
			stats["with several Aspects on one join point"]++
		}
		cases = append(cases, cs)
	}

	// 1. enumerated shapes (the event grammar, systematically): Aspects per join point 0..3, calls inside an Aspect 0..2
	var shapes []ctShape
	for pretx := 0; pretx <= 2; pretx++ {
		for pre := 0; pre <= 3; pre++ {
			for post := 0; post <= 3; post++ {
				for ac := 0; ac <= 2; ac++ {
					for body := 0; body <= 2; body++ {
						for cj := 0; cj <= 2; cj++ {
							shapes = append(shapes, ctShape{pretx: pretx, pre: pre, post: post, posttx: (pretx + pre) % 3, aspCalls: ac, body: body, cpre: cj, cpost: (cj + post) % 3, depth: 1 + (pre+body)%2})
						}
					}
				}
			}
		}
	}
	step := 1
	if c.tier != "thorough" {
		step = 7
	}
	for i := int(c.seed % uint64(step)); i < len(shapes); i += step {
		s := shapes[i]
		g := &ctGen{r: r.Fork(), shape: &s}
		x := g.tx(s.depth)
		evs := x.events()
		k := i % 6
		switch {
		case k < 2:
			run("shape", evs, x, 0, 0, k)
		case k == 2:
			run("shape", evs, x, 0, 1, 0)
		default:
			run("shape", evs, x, 1, k%2, (k/2)%2)
		}
	}
	// 2. random trees
	for i := 0; i < c.n; i++ {
		g := &ctGen{r: r.Fork()}
		x := g.tx(1 + r.Intn(3))
		evs := x.events()
		if r.Intn(2) == 0 {
			run("tree", evs, x, 0, btoi(r.Intn(5) == 0), r.Intn(2))
		} else {
			run("tree", evs, x, 1, r.Intn(2), btoi(r.Intn(4) == 0))
		}
	}
	// 3. malformed streams: a well-nested stream with events removed, duplicated or swapped
	for i := 0; i < c.n/4; i++ {
		g := &ctGen{r: r.Fork()}
		x := g.tx(1 + r.Intn(2))
		evs := x.events()
		for k := 0; k < 1+r.Intn(3) && len(evs) > 2; k++ {
			j := r.Intn(len(evs))
			switch r.Intn(3) {
			case 0:
				evs = append(evs[:j:j], evs[j+1:]...)
			case 1:
				evs = append(evs[:j+1:j+1], evs[j:]...)
			default:
				k2 := r.Intn(len(evs))
				evs[j], evs[k2] = evs[k2], evs[j]
			}
		}
		if r.Intn(2) == 0 {
			run("malformed", evs, nil, 0, btoi(r.Intn(5) == 0), 0)
		} else {
			run("malformed", evs, nil, 1, r.Intn(2), 0)
		}
	}
	if err := writeFile(c.out, "cases.txt", sb.String()); err != nil {
		return err
	}
	if err := writeJSON(c.out, "cases.json", cases); err != nil {
		return err
	}
	return writeJSON(c.out, "stats.json", stats)
}

func btoi(b bool) int {
	if b {
		return 1
	}
	return 0
}

func firstLine(s string) string {
	if i := strings.IndexByte(s, '\n'); i >= 0 {
		return s[:i]
	}
	return s
}
