package main

import (
	"bytes"
	"context"
	"fmt"
	"math/big"
	"strings"

	"verifharness/internal/asm"
	"verifharness/internal/impl"
	"verifharness/internal/items"
	"verifharness/internal/rng"

	"github.com/artela-network/artela-evm/vm"
	"github.com/ethereum/go-ethereum/common"
	"github.com/holiman/uint256"
)

func init() { commands["mcopy"] = cmdMcopy }

type mcCase struct {
	Idx    int      `json:"idx"`
	Fork   string   `json:"fork"`
	MemLen int      `json:"mem_len"`
	Dst    string   `json:"dst"`
	Src    string   `json:"src"`
	Len    string   `json:"len"`
	Result string   `json:"result"`
	Oracle []string `json:"oracle_fail,omitempty"`
	Line   string   `json:"-"`
}

func cmdMcopy(args []string) error {
	c := newCommon("mcopy")
	c.fs.Parse(args)
	r := rng.New(c.seed)
	self := common.HexToAddress("0xc0de")
	small := []uint64{0, 1, 31, 32, 33, 63, 64, 65, 96, 100}
	big2 := func(e uint) *uint256.Int { return new(uint256.Int).Lsh(uint256.NewInt(1), e) }
	huge := []*uint256.Int{big2(32), big2(63), new(uint256.Int).Sub(big2(64), uint256.NewInt(1)), big2(64), big2(255), new(uint256.Int).SetAllOne(),
		new(uint256.Int).Sub(big2(64), uint256.NewInt(32)), uint256.NewInt(0x1FFFFFFFE0), uint256.NewInt(0x1FFFFFFFE1),
		new(uint256.Int).Add(big2(64), uint256.NewInt(8)), new(uint256.Int).Add(big2(128), uint256.NewInt(32)), new(uint256.Int).Add(big2(200), uint256.NewInt(1))}
	var cases []mcCase
	stats := map[string]int{}
	var sb strings.Builder
	one := func(fork string, words int, dst, src, ln *uint256.Int) {
		b := asm.New()
		pattern := make([]byte, words*32)
		for i := range pattern {
			pattern[i] = byte(i*7 + 1)
		}
		b.MstoreBytes(0, pattern)
		lb, sb2, db := ln.Bytes32(), src.Bytes32(), dst.Bytes32()
		b.PushBytes(lb[:]).PushBytes(sb2[:]).PushBytes(db[:]).Op(asm.MCOPY).Op(asm.JUMPDEST).Op(asm.STOP)
		rec := &impl.Recorder{KeepMem: true, KeepOps: func(op byte) bool { return op == 0x5e || op == 0x5b }}
		env := impl.NewEnv(impl.Opts{Fork: fork, Tracer: rec})
		env.SetCode(self, b.Bytes())
		env.Prepare(&self)
		var err error
		pan := impl.Guard(func() {
			_, _, err = env.EVM.Call(context.Background(), vm.AccountRef(exCaller), self, nil, 50_000_000, big.NewInt(0))
		})
		cs := mcCase{Idx: len(cases), Fork: fork, MemLen: words * 32, Dst: dst.Hex(), Src: src.Hex(), Len: ln.Hex()}
		l := items.New("MC")
		var before, after *impl.Event
		for i := range rec.Events {
			e := &rec.Events[i]
			if e.Kind == "state" && e.Op == 0x5e && before == nil {
				before = e
			}
			if e.Kind == "state" && e.Op == 0x5b && !e.HasErr && before != nil && after == nil {
				after = e
			}
		}
		switch {
		case pan != "":
			cs.Result = "panic: " + pan
			cs.Oracle = append(cs.Oracle, "C15: MCOPY panicked: "+pan)
			l.B(pattern).Big(dst.ToBig()).Big(src.ToBig()).Big(ln.ToBig()).Res(2, []byte(pan)).N(0)
		case fork != "Cancun":
			// before Cancun the byte must be an invalid instruction
			cs.Result = fmt.Sprint(err)
			if err == nil || !strings.HasPrefix(err.Error(), "invalid opcode") {
				cs.Oracle = append(cs.Oracle, fmt.Sprintf("C15: 0x5e executed on %s: %v", fork, err))
			}
			stats["pre-cancun"]++
			return
		case before == nil:
			cs.Result = "no mcopy step"
			cs.Oracle = append(cs.Oracle, "C15: MCOPY step not seen")
			return
		case before.HasErr || after == nil:
			msg := "failed"
			if err != nil {
				msg = err.Error()
			}
			cs.Result = "err: " + msg
			l.B(before.Mem).Big(dst.ToBig()).Big(src.ToBig()).Big(ln.ToBig()).Res(1, []byte(msg)).N(before.Gas)
		default:
			cs.Result = "ok"
			l.B(before.Mem).Big(dst.ToBig()).Big(src.ToBig()).Big(ln.ToBig()).Open().N(0).N(before.Cost).B(after.Mem).Close().N(before.Gas)
			// independent oracle: memmove on a copy
			if ln.IsUint64() && dst.IsUint64() && src.IsUint64() {
				n, d, s := ln.Uint64(), dst.Uint64(), src.Uint64()
				need := uint64(0)
				if n > 0 {
					need = d
					if s > d {
						need = s
					}
					need = (need + n + 31) / 32 * 32
				}
				exp := append([]byte{}, before.Mem...)
				if uint64(len(exp)) < need {
					exp = append(exp, make([]byte, need-uint64(len(exp)))...)
				}
				if n > 0 {
					tmp := append([]byte{}, exp[s:s+n]...)
					copy(exp[d:], tmp)
				}
				if !bytes.Equal(exp, after.Mem) {
					cs.Oracle = append(cs.Oracle, fmt.Sprintf("C15: memory after MCOPY(dst=%d, src=%d, len=%d) differs from memmove", d, s, n))
				}
				words := (n + 31) / 32
				nw, ow := uint64(len(exp))/32, uint64(len(before.Mem))/32
				fee := func(w uint64) uint64 { return 3*w + w*w/512 }
				if want := 3 + 3*words + fee(nw) - fee(ow); before.Cost != want {
					cs.Oracle = append(cs.Oracle, fmt.Sprintf("C15: MCOPY charged %d, EIP-5656 says %d", before.Cost, want))
				}
			} else if !ln.IsZero() {
				cs.Oracle = append(cs.Oracle, fmt.Sprintf("C15: MCOPY(dst=%s, src=%s, len=%s) with an operand beyond 2^64 succeeded; memory up to max(dst,src)+len cannot be paid for", dst.Hex(), src.Hex(), ln.Hex()))
			}
		}
		cs.Line = l.String()
		sb.WriteString(cs.Line + "\n")
		stats["result:"+strings.SplitN(cs.Result, ":", 2)[0]]++
		cases = append(cases, cs)
	}
	// bounded-exhaustive part: all (dst, src, len) over the small set on 4 words of memory
	for _, d := range small {
		for _, s := range small {
			for _, n := range small {
				one("Cancun", 4, uint256.NewInt(d), uint256.NewInt(s), uint256.NewInt(n))
			}
		}
	}
	for i := 0; i < c.n; i++ {
		pick := func() *uint256.Int {
			switch r.Intn(6) {
			case 0:
				return huge[r.Intn(len(huge))]
			case 1:
				return uint256.NewInt(uint64(r.Intn(5000)))
			default:
				return uint256.NewInt(uint64(r.Intn(200)))
			}
		}
		fork := "Cancun"
		if r.Intn(8) == 0 {
			fork = []string{"Shanghai", "London", "Frontier"}[r.Intn(3)]
		}
		ln := pick()
		d, s := pick(), pick()
		// the model keeps memory as a list: keep successful expansions below ~20 KB (larger operands still occur, as failures)
		within := func(x *uint256.Int) bool { return !x.IsUint64() || x.Uint64() <= 20000 || x.Uint64() > 1<<33 }
		if !within(ln) {
			ln = uint256.NewInt(uint64(r.Intn(3000)))
		}
		if !ln.IsZero() && (!within(d) || !within(s)) {
			d, s = uint256.NewInt(uint64(r.Intn(5000))), uint256.NewInt(uint64(r.Intn(5000)))
		}
		one(fork, r.Intn(6), d, s, ln)
	}
	// pre-Cancun cases are not in cases.txt; keep cases.json aligned with the lines
	if err := writeFile(c.out, "cases.txt", sb.String()); err != nil {
		return err
	}
	if err := writeJSON(c.out, "cases.json", cases); err != nil {
		return err
	}
	return writeJSON(c.out, "stats.json", stats)
}
