package main

// execref — the frame model WITHOUT the Artela additions (artela = false) against go-ethereum v1.12.0's own
// EVM.Call / CallCode / DelegateCall / StaticCall / Create / Create2: the same recorded-script correspondence as
// `exec`, with the scripts and observations taken from the reference implementation.  This ties the reference side
// of the refinement theorem (Proofs/Exec_refine.v) to the reference code.

import (
	"fmt"
	"math/big"
	"reflect"
	"strings"

	"verifharness/internal/gen"
	"verifharness/internal/impl"
	"verifharness/internal/progen"
	"verifharness/internal/ref"
	"verifharness/internal/rng"

	"github.com/artela-network/artela-evm/vm"
	"github.com/ethereum/go-ethereum/common"
	ethvm "github.com/ethereum/go-ethereum/core/vm"
	"github.com/ethereum/go-ethereum/crypto"
	"github.com/holiman/uint256"
)

func init() { commands["execref"] = cmdExecRef }

func runScenarioRef(cs *exCase, w *world, u progen.Universe, code0 []byte, debug bool) *exRun {
	r := &exRun{touched: map[common.Address]map[common.Hash]bool{}, extraAdr: map[common.Address]bool{}, noArtela: true}
	rec := &ref.Recorder{KeepMem: true}
	st := impl.NewState()
	w.apply(st)
	var tr ethvm.EVMLogger
	if debug {
		tr = rec
	}
	evm := gen.UpstreamEVM(cs.Fork, st, tr, nil)
	r.tracer, r.state = vm.NewTracer(), st
	seenAddrs := map[common.Address]bool{exCaller: true, u.EOA: true, u.Empty: true}
	for _, a := range u.Contracts {
		seenAddrs[a] = true
	}
	evmv := reflect.ValueOf(evm).Elem()
	digests := map[int]string{}
	rec.OnState = func(e *ref.Event, scope *ethvm.ScopeContext) {
		if e.HasErr {
			return
		}
		if n := len(e.Stack); n >= 2 {
			switch e.Op {
			case 0xf1, 0xf2, 0xf4, 0xfa:
				seenAddrs[common.Address(e.Stack[n-2].Bytes20())] = true
			case 0xff:
				seenAddrs[common.Address(e.Stack[n-1].Bytes20())] = true
			}
		}
		digests[len(rec.Events)] = worldDigest(st, seenAddrs, r.touched)
		switch e.Op {
		case 0xf1, 0xf2, 0xf4, 0xfa:
			e.Used = evmv.FieldByName("callGasTemp").Uint()
		case 0xf0, 0xf5:
			n := len(e.Stack)
			if (e.Op == 0xf0 && n >= 3) || (e.Op == 0xf5 && n >= 4) {
				off, size := e.Stack[n-2].Uint64(), e.Stack[n-3].Uint64()
				init := zext(e.Mem, off, size)
				if e.Op == 0xf0 {
					seenAddrs[crypto.CreateAddress(e.Self, st.GetNonce(e.Self))] = true
					e.To = crypto.CreateAddress(e.Self, st.GetNonce(e.Self))
				} else {
					salt := e.Stack[n-4].Bytes32()
					e.To = crypto.CreateAddress2(e.Self, salt, crypto.Keccak256(init))
				}
				e.Input = init
			}
		case 0x55:
			if n := len(e.Stack); n >= 2 {
				k := common.Hash(e.Stack[n-1].Bytes32())
				if r.touched[e.Self] == nil {
					r.touched[e.Self] = map[common.Hash]bool{}
				}
				r.touched[e.Self][k] = true
			}
		}
	}
	cfg, merge := impl.ChainConfig(cs.Fork)
	rules := cfg.Rules(big.NewInt(0), merge, 0)
	to := u.Contracts[0]
	st.Prepare(rules, impl.Origin, impl.Coinbase, &to, ethvm.ActivePrecompiles(rules), nil)
	if rules.IsBerlin {
		st.AddAddressToAccessList(exCaller)
	}
	input := common.FromHex(cs.Input)
	if len(input) == 0 {
		input = nil
	}
	value := new(big.Int).SetUint64(cs.Value)
	caller := ethvm.AccountRef(exCaller)
	r.digest0 = worldDigest(st, seenAddrs, r.touched)
	r.pan = impl.Guard(func() {
		switch cs.Entry {
		case 0:
			r.ret, r.left, r.err = evm.Call(caller, to, input, cs.Gas, value)
		case 1:
			r.ret, r.left, r.err = evm.CallCode(caller, to, input, cs.Gas, value)
		case 2:
			parent := ethvm.NewContract(caller, caller, value, cs.Gas)
			r.ret, r.left, r.err = evm.DelegateCall(parent, to, input, cs.Gas)
		case 3:
			r.ret, r.left, r.err = evm.StaticCall(caller, to, input, cs.Gas)
		case 4:
			r.ret, r.addr, r.left, r.err = evm.Create(caller, code0, cs.Gas, value)
		default:
			r.ret, r.addr, r.left, r.err = evm.Create2(caller, code0, cs.Gas, value, uint256.NewInt(7))
		}
	})
	r.digest1 = worldDigest(st, seenAddrs, r.touched)
	// the reference implementation's own error values, mapped onto the fork's (the case line distinguishes revert / out of gas by identity)
	switch r.err {
	case ethvm.ErrExecutionReverted:
		r.err = vm.ErrExecutionReverted
	case ethvm.ErrOutOfGas:
		r.err = vm.ErrOutOfGas
	}
	ir := &impl.Recorder{}
	for i, e := range rec.Events {
		ir.Events = append(ir.Events, impl.Event{Kind: e.Kind, Op: e.Op, Pc: e.Pc, Gas: e.Gas, Cost: e.Cost, Depth: e.Depth, Err: e.Err, HasErr: e.HasErr,
			CGas: e.CGas, Digest: digests[i], ErrIsRevert: e.ErrIsRevert, ErrIsOog: e.ErrIsOog, From: e.From, To: e.To, Self: e.Self, Create: e.Create,
			Input: e.Input, Value: e.Value, Output: e.Output, Used: e.Used, Stack: e.Stack, Mem: e.Mem, RData: e.RData})
	}
	r.rec = ir
	return r
}

func cmdExecRef(args []string) error {
	c := newCommon("execref")
	c.fs.Parse(args)
	r := rng.New(c.seed)
	u := progen.DefaultUniverse()
	u.Precomp = []common.Address{common.BigToAddress(big.NewInt(4))}
	forks := []string{"Byzantium", "Istanbul", "Berlin", "London", "Shanghai"}
	var cases []exCase
	stats := map[string]int{}
	var sb strings.Builder
	for i := 0; i < c.n; i++ {
		rr := r.Fork()
		cs, w, code0 := genExecCaseOpts(rr, u, forks, false)
		cs.Idx = len(cases)
		cs.JP, cs.AspLog, cs.Bindings, cs.Aspects = false, false, nil, nil
		run := runScenarioRef(&cs, w, u, code0, true)
		if run.pan != "" {
			cs.Oracle = append(cs.Oracle, "Go panic in the reference implementation: "+run.pan)
			cs.Result = "panic"
			cases = append(cases, cs)
			sb.WriteString("EX [ ]\n")
			continue
		}
		if len(run.rec.Events) > 2500 {
			stats["skipped-too-long"]++
			continue
		}
		line, skipped := buildExecLine(&cs, run, w, u, code0, true)
		if skipped != "" {
			stats["skipped"]++
			continue
		}
		cs.Line = line
		if run.err != nil {
			cs.Result = run.err.Error()
		} else {
			cs.Result = "ok"
		}
		stats["fork:"+cs.Fork]++
		stats[fmt.Sprintf("entry:%d", cs.Entry)]++
		stats["frames"] += cs.Frames
		cases = append(cases, cs)
		sb.WriteString(line + "\n")
		if rr.Intn(3) == 0 {
			cs2 := cs
			cs2.Idx = len(cases)
			cs2.Debug = false
			run2 := runScenarioRef(&cs2, w, u, code0, false)
			line2, _ := buildExecLineFrom(&cs2, run, run2, w, u, code0)
			cs2.Line = line2
			stats["debug-off"]++
			cases = append(cases, cs2)
			sb.WriteString(line2 + "\n")
		}
	}
	if err := writeFile(c.out, "cases.txt", sb.String()); err != nil {
		return err
	}
	if err := writeJSON(c.out, "cases.json", cases); err != nil {
		return err
	}
	return writeJSON(c.out, "stats.json", stats)
}
