package main

import (
	"fmt"
	"math/big"
	"strings"

	"verifharness/internal/impl"
	"verifharness/internal/items"
	"verifharness/internal/progen"
	"verifharness/internal/rng"

	"github.com/ethereum/go-ethereum/common"
)

func init() { commands["callgas"] = cmdCallGas }

// Every CALL / CALLCODE / DELEGATECALL / STATICCALL instruction of generated executions (all 13 rule sets): the gas in front
// of the instruction, its total charge, the gas operand, and what was forwarded (evm.callGasTemp) and what the callee frame
// was announced with.  Model/CallGas.v: forwarded = min(requested, all but one 64th of what is left after the other costs)
// from EIP-150, the request itself before; the callee gets the 2300 stipend on top for a value-bearing CALL/CALLCODE
// (component CG).

type cgCase struct {
	Idx       int      `json:"idx"`
	Fork      string   `json:"fork"`
	Op        string   `json:"op"`
	Gas       uint64   `json:"gas_before"`
	Cost      uint64   `json:"cost"`
	Requested string   `json:"requested"`
	Value     bool     `json:"value_nonzero"`
	Forwarded uint64   `json:"forwarded"`
	Entered   bool     `json:"callee_frame_announced"`
	CalleeGas uint64   `json:"callee_gas,omitempty"`
	Oracle    []string `json:"oracle_fail,omitempty"`
}

func cmdCallGas(args []string) error {
	c := newCommon("callgas")
	c.fs.Parse(args)
	r := rng.New(c.seed)
	u := progen.DefaultUniverse()
	u.Precomp = []common.Address{common.BigToAddress(big.NewInt(4)), common.BigToAddress(big.NewInt(2)), common.BigToAddress(big.NewInt(0x64))}
	var cases []cgCase
	var lines []string
	stats := map[string]int{}
	for i := 0; i < c.n; i++ {
		rr := r.Fork()
		cs, w, code0 := genExecCaseOpts(rr, u, impl.Forks, false)
		cs.Debug = true
		run := runScenario(&cs, w, u, code0, true)
		if run.pan != "" || len(run.rec.Events) > 4000 {
			continue
		}
		eip150 := impl.ForkIndex(cs.Fork) >= 2
		evs := run.rec.Events
		for k := range evs {
			e := &evs[k]
			if e.Kind != "state" || e.HasErr {
				continue
			}
			var kind uint64
			switch e.Op {
			case 0xf1:
				kind = 0
			case 0xf2:
				kind = 1
			case 0xf4:
				kind = 2
			case 0xfa:
				kind = 3
			default:
				continue
			}
			n := len(e.Stack)
			if n < 6 {
				continue
			}
			req := e.Stack[n-1].ToBig()
			value := (kind == 0 || kind == 1) && n >= 3 && !e.Stack[n-3].IsZero()
			cg := cgCase{Idx: len(cases), Fork: cs.Fork, Op: fmt.Sprintf("%02x", e.Op), Gas: e.Gas, Cost: e.Cost, Requested: req.Text(16), Value: value, Forwarded: e.Used}
			// the next event: the callee frame's announcement, unless the call was refused before it (depth, balance)
			if k+1 < len(evs) && evs[k+1].Kind == "enter" && evs[k+1].Depth == 0 || (k+1 < len(evs) && evs[k+1].Kind == "enter") {
				cg.Entered, cg.CalleeGas = true, evs[k+1].Gas
			}
			// the property's wording (C02/C06): from EIP-150 on never more than all but one 64th of what is left
			if eip150 && e.Cost <= e.Gas+0 && e.Used <= e.Cost {
				left := e.Gas - (e.Cost - e.Used)
				if e.Used > left-left/64 {
					cg.Oracle = append(cg.Oracle, fmt.Sprintf("C02: %s forwards %d gas with %d left after its other costs (more than all but one 64th)", cg.Op, e.Used, left))
				}
			}
			l := items.New("CG").Bool(eip150).N(e.Gas).N(e.Cost).Big(req).Bool(value).N(kind).N(e.Used).Open()
			if cg.Entered {
				l.N(cg.CalleeGas)
			}
			l.Close()
			lines = append(lines, l.String())
			cases = append(cases, cg)
			stats["fork:"+cs.Fork]++
			stats["op:"+cg.Op]++
			if value {
				stats["value-bearing"]++
			}
			if !req.IsUint64() {
				stats["request>=2^64"]++
			} else if req.Uint64() > e.Used {
				stats["capped"]++
			}
			if !cg.Entered {
				stats["refused-before-entry"]++
			}
		}
	}
	if err := writeFile(c.out, "cases.txt", strings.Join(lines, "\n")+"\n"); err != nil {
		return err
	}
	if err := writeJSON(c.out, "cases.json", cases); err != nil {
		return err
	}
	return writeJSON(c.out, "stats.json", stats)
}
