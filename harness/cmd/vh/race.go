package main

import (
	"context"
	"fmt"
	"math/big"
	"sync"
	"sync/atomic"
	"time"

	"verifharness/internal/asm"
	"verifharness/internal/impl"
	"verifharness/internal/items"
	"verifharness/internal/progen"
	"verifharness/internal/rng"

	"github.com/artela-network/artela-evm/vm"
	actypes "github.com/artela-network/aspect-core/types"
	"github.com/ethereum/go-ethereum/common"
)

func init() { commands["race"] = cmdRace }

type raceCase struct {
	Idx    int      `json:"idx"`
	Kind   string   `json:"kind"`
	Fork   string   `json:"fork"`
	Eips   []int    `json:"eips,omitempty"`
	Worker int      `json:"worker"`
	Result string   `json:"result"`
	Oracle []string `json:"oracle_fail,omitempty"`
}

type raceJob struct {
	fork  string
	eips  []int
	jp    bool
	w     *world
	entry int
	input []byte
	gas   uint64
	want  string
}

func runRaceJob(j *raceJob, u progen.Universe) string {
	env := impl.NewEnv(impl.Opts{Fork: j.fork, JP: j.jp, ExtraEips: j.eips})
	j.w.apply(env.State)
	to := u.Contracts[0]
	env.Prepare(&to)
	if env.Rules.IsBerlin {
		env.State.AddAddressToAccessList(exCaller)
	}
	var ret []byte
	var left uint64
	var err error
	pan := impl.Guard(func() {
		ctx := context.Background()
		caller := vm.AccountRef(exCaller)
		switch j.entry {
		case 0:
			ret, left, err = env.EVM.Call(ctx, caller, to, j.input, j.gas, big.NewInt(0))
		case 1:
			ret, left, err = env.EVM.StaticCall(ctx, caller, to, j.input, j.gas)
		default:
			ret, _, left, err = env.EVM.Create(ctx, caller, j.w.Code[to], j.gas, big.NewInt(0))
		}
	})
	l := items.New("R")
	impl.DumpCallTree(l, env.EVM.Tracer().CallTree())
	return fmt.Sprintf("%x|%d|%v|%s|%s|%s", ret, left, err, pan, env.State.IntermediateRoot(true).Hex(), short(l.String()))
}

func cmdRace(args []string) error {
	c := newCommon("race")
	c.fs.Parse(args)
	r := rng.New(c.seed)
	u := progen.DefaultUniverse()
	// 0x64-0x66 are one shared table instance per process each: concurrent instances calling them must not meet in it
	u.Precomp = []common.Address{common.BigToAddress(big.NewInt(4)), common.BigToAddress(big.NewInt(2)), common.BigToAddress(big.NewInt(0x64)), common.BigToAddress(big.NewInt(0x66))}
	installHostQuiet()
	// fixed Aspect bindings for the whole concurrent phase (the provider is process-global)
	impl.InitAspects()
	impl.Provider.Reset()
	impl.Provider.Bind(u.Contracts[1], actypes.PRE_CONTRACT_CALL_METHOD, aspectAddr(1).Hex())
	impl.Provider.Bind(u.Contracts[2], actypes.POST_CONTRACT_CALL_METHOD, aspectAddr(2).Hex(), aspectAddr(3).Hex())
	impl.Provider.Behave = func(id string, pc string, gas int64, req []byte) ([]byte, int64, error) {
		burn := int64(100 + len(req)%50)
		if burn > gas {
			burn = gas
		}
		return []byte{0x01}, gas - burn, nil
	}
	forks := []string{"Frontier", "Byzantium", "Istanbul", "Berlin", "London", "Shanghai", "Cancun"}
	eipsets := [][]int{nil, nil, {3855}, {3860}, {2929}, {1884, 2200}, {3198}, {1153}}
	var jobs []*raceJob
	for i := 0; i < c.n; i++ {
		rr := r.Fork()
		fork := forks[rr.Intn(len(forks))]
		fi := impl.ForkIndex(fork)
		j := &raceJob{fork: fork, eips: eipsets[rr.Intn(len(eipsets))], jp: rr.Bool(), entry: []int{0, 0, 1, 2}[rr.Intn(4)], gas: 2_000_000, input: rr.Bytes(rr.Intn(30))}
		if j.entry == 1 && fi < 4 {
			j.entry = 0
		}
		j.w = &world{Code: map[common.Address][]byte{}, Storage: map[common.Address]map[common.Hash]common.Hash{}, Balance: map[common.Address]*big.Int{}, Nonce: map[common.Address]uint64{}}
		for _, a := range u.Contracts {
			j.w.Code[a] = progen.Program(rr, u, progen.Opts{Fork: fi, MaxSnips: 10, Cancun: fork == "Cancun", Journal: true})
			j.w.Balance[a] = big.NewInt(1000)
		}
		j.w.Balance[exCaller] = big.NewInt(1_000_000)
		jobs = append(jobs, j)
	}
	// sequential reference results
	for _, j := range jobs {
		j.want = runRaceJob(j, u)
	}
	var mu sync.Mutex
	var cases []raceCase
	stats := map[string]int{}
	workers := 8
	var wg sync.WaitGroup
	for wk := 0; wk < workers; wk++ {
		wg.Add(1)
		go func(wk int) {
			defer wg.Done()
			for round := 0; round < 2; round++ {
				for k := range jobs {
					j := jobs[(k+wk*7)%len(jobs)]
					got := runRaceJob(j, u)
					cs := raceCase{Kind: "parallel", Fork: j.fork, Eips: j.eips, Worker: wk, Result: "same"}
					if got != j.want {
						cs.Result = "differs"
						cs.Oracle = append(cs.Oracle, fmt.Sprintf("C17: result under %d concurrent workers differs from the sequential run: %s vs %s", workers, got, j.want))
					}
					mu.Lock()
					cs.Idx = len(cases)
					cases = append(cases, cs)
					stats["parallel"]++
					mu.Unlock()
				}
			}
		}(wk)
	}
	wg.Wait()

	// context-write storm: every worker is its own caller and writes its own address through 0x66 from fresh EVM instances;
	// the host must see every write under the caller that made it (the precompile tables hold ONE instance per process)
	{
		var bad atomic.Int64
		var firstBad atomic.Value
		actypes.SetAspectContext = func(ctx context.Context, a common.Address, key string, value []byte) error {
			if len(value) == 20 && common.BytesToAddress(value) != a {
				if bad.Add(1) == 1 {
					firstBad.Store(fmt.Sprintf("write of caller %x reached the host under %x", value[17:], a[17:]))
				}
			}
			return nil
		}
		iters := 40 + 4*c.n
		ctxTo := common.BigToAddress(big.NewInt(0x66))
		var swg sync.WaitGroup
		for wk := 0; wk < workers; wk++ {
			swg.Add(1)
			go func(wk int) {
				defer swg.Done()
				me := common.BigToAddress(big.NewInt(int64(0xaa0000 + wk)))
				payload := encodeKV([]byte("k"), me.Bytes())
				for k := 0; k < iters; k++ {
					env := impl.NewEnv(impl.Opts{Fork: "Cancun"})
					to := ctxTo
					env.Prepare(&to)
					impl.Guard(func() {
						env.EVM.Call(context.Background(), vm.AccountRef(me), to, payload, 100000, big.NewInt(0))
					})
				}
			}(wk)
		}
		swg.Wait()
		installHostQuiet()
		cs := raceCase{Idx: len(cases), Kind: "context-write-storm", Fork: "Cancun", Result: "attributed"}
		if n := bad.Load(); n > 0 {
			cs.Result = "misattributed"
			cs.Oracle = append(cs.Oracle, fmt.Sprintf("C17: %d of %d context writes made concurrently by %d EVM instances were attributed to another instance's caller (%v)", n, iters*workers, workers, firstBad.Load()))
		}
		cases = append(cases, cs)
		stats["context-write-storm"] = iters * workers
	}

	// Cancel from another goroutine while a loop (with nested calls) is running
	loopAddr, innerAddr := u.Contracts[0], u.Contracts[1]
	for i := 0; i < c.n/2+4; i++ {
		rr := r.Fork()
		fork := forks[1+rr.Intn(len(forks)-1)]
		rec := &impl.Recorder{KeepOps: func(op byte) bool { return false }}
		env := impl.NewEnv(impl.Opts{Fork: fork, JP: rr.Bool(), Tracer: rec})
		// inner: a short loop then return; outer: forever { call inner; jump }
		in := asm.New()
		in.Push(5)
		lp := in.Len()
		in.Op(asm.JUMPDEST).Push(1).Op(asm.SWAP1, asm.SUB).Op(asm.DUP1).Push2Fixed(lp).Op(asm.JUMPI).Op(asm.STOP)
		out := asm.New()
		top := out.Len()
		out.Op(asm.JUMPDEST)
		out.Push(0).Push(0).Push(0).Push(0).Push(0).PushAddr(innerAddr).Push(50000).Op(asm.CALL).Op(asm.POP)
		out.Push2Fixed(top).Op(asm.JUMP)
		env.SetCode(loopAddr, out.Bytes())
		env.SetCode(innerAddr, in.Bytes())
		env.State.AddBalance(exCaller, big.NewInt(1000))
		env.Prepare(&loopAddr)
		delay := time.Duration(rr.Intn(3000)) * time.Microsecond
		done := make(chan struct{})
		var err error
		var pan string
		t0 := time.Now()
		go func() {
			pan = impl.Guard(func() {
				_, _, err = env.EVM.Call(context.Background(), vm.AccountRef(exCaller), loopAddr, nil, 1<<50, big.NewInt(0))
			})
			close(done)
		}()
		time.Sleep(delay)
		env.EVM.Cancel()
		cs := raceCase{Kind: "cancel", Fork: fork, Result: "stopped"}
		select {
		case <-done:
		case <-time.After(5 * time.Second):
			cs.Result = "still running"
			cs.Oracle = append(cs.Oracle, fmt.Sprintf("C17: execution did not stop within 5 s after Cancel (called after %v)", delay))
		}
		if cs.Result == "stopped" {
			if pan != "" {
				cs.Oracle = append(cs.Oracle, "C17: panic after Cancel: "+pan)
			}
			if cur := env.EVM.Tracer().CallTree().Current(); cur != nil {
				cs.Oracle = append(cs.Oracle, fmt.Sprintf("C17: call %d left open after a cancelled execution", cur.Index))
			}
			before := len(rec.Events)
			env.EVM.Call(context.Background(), vm.AccountRef(exCaller), u.EOA, nil, 30000, big.NewInt(0))
			if len(rec.Events) <= before || rec.Events[before].Kind != "start" {
				cs.Oracle = append(cs.Oracle, "C17: after a cancelled execution a follow-up call is not announced at depth 0")
			}
			_ = err
			stats[fmt.Sprintf("cancel-after<=%dms", (time.Since(t0).Milliseconds()/1+1))]++
		}
		cs.Idx = len(cases)
		cases = append(cases, cs)
		stats["cancel"]++
	}
	if err := writeJSON(c.out, "cases.json", cases); err != nil {
		return err
	}
	return writeJSON(c.out, "stats.json", stats)
}
