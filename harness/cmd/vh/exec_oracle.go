package main

import (
	"bytes"
	"crypto/sha256"
	"fmt"
	"github.com/holiman/uint256"
	"math/big"
	"sort"
	"strings"

	"verifharness/internal/impl"

	actypes "github.com/artela-network/aspect-core/types"
	"github.com/ethereum/go-ethereum/common"
	"github.com/ethereum/go-ethereum/core/state"
)

// worldDigest summarises what C04 speaks about for the addresses seen so far.  Accounts that do not
// exist contribute nothing and zero storage words contribute nothing, so that looking at an address
// or a key for the first time does not change the digest.
func worldDigest(st *state.StateDB, addrs map[common.Address]bool, keys map[common.Address]map[common.Hash]bool) string {
	return worldDigestX(st, addrs, keys, nil)
}

// worldDigestX: as worldDigest, leaving out the nonce of one account (a CREATE that fails after its pre-flight checks
// legitimately keeps the creator's nonce increment; everything else must be as before).
func worldDigestX(st *state.StateDB, addrs map[common.Address]bool, keys map[common.Address]map[common.Hash]bool, skipNonce *common.Address) string {
	var list []common.Address
	for a := range addrs {
		list = append(list, a)
	}
	sort.Slice(list, func(i, j int) bool { return bytes.Compare(list[i][:], list[j][:]) < 0 })
	h := sha256.New()
	for _, a := range list {
		if !st.Exist(a) {
			continue
		}
		nonce := st.GetNonce(a)
		if skipNonce != nil && a == *skipNonce {
			nonce = 0
		}
		fmt.Fprintf(h, "%x|%s|%d|%x|%v;", a, st.GetBalance(a), nonce, st.GetCodeHash(a), st.HasSuicided(a))
		ks := map[common.Hash]bool{}
		for k := range keys[a] {
			ks[k] = true
		}
		for i := 0; i < 8; i++ {
			ks[common.BigToHash(big.NewInt(int64(i)))] = true
		}
		var kl []common.Hash
		for k := range ks {
			kl = append(kl, k)
		}
		sort.Slice(kl, func(i, j int) bool { return bytes.Compare(kl[i][:], kl[j][:]) < 0 })
		for _, k := range kl {
			if v := st.GetState(a, k); v != (common.Hash{}) {
				fmt.Fprintf(h, "%x=%x,", k, v)
			}
		}
	}
	fmt.Fprintf(h, "logs=%d", len(st.Logs()))
	// the digest is only comparable with digests taken over the same set of addresses: the set size is its prefix
	return fmt.Sprintf("%d:%x", len(addrs), h.Sum(nil)[:10])
}

// sameUniverse: two world digests were taken over the same address set (it only ever grows)
func sameUniverse(a, b string) bool {
	i, j := strings.IndexByte(a, ':'), strings.IndexByte(b, ':')
	return i > 0 && j > 0 && a[:i] == b[:j]
}

// transferObs is what the wrapping transfer function installed by the harness saw.
type transferObs struct {
	From, To           common.Address
	B0f, B0t, B1f, B1t *big.Int
	EventPos           int // number of recorded events at the time of the transfer
}

func firePayload(e *impl.Event) (from, to common.Address, data []byte, value *big.Int, idx uint64, gas uint64, ok bool) {
	switch m := e.Req.(type) {
	case *actypes.PreContractCallInput:
		c := m.GetCall()
		return common.BytesToAddress(c.GetFrom()), common.BytesToAddress(c.GetTo()), c.GetData(), new(big.Int).SetBytes(c.GetValue()), c.GetIndex(), c.GetGas(), true
	case *actypes.PostContractCallInput:
		c := m.GetCall()
		return common.BytesToAddress(c.GetFrom()), common.BytesToAddress(c.GetTo()), c.GetData(), new(big.Int).SetBytes(c.GetValue()), c.GetIndex(), c.GetGas(), true
	}
	return common.Address{}, common.Address{}, nil, nil, 0, 0, false
}

type oFrame struct {
	open      *impl.Event // start or enter
	kind      byte        // opcode of the frame (0xf1 for a top-level call, 0xf0/0xf5 for creations)
	node      int         // call-tree index, -1 when the frame kind records none
	providers []bool      // provider queries made directly by this frame: true = pre
	hasPre    bool
	preFailed bool
	preErr    string // error text of the failing pre-join-point Aspect
	lastPre   uint64 // gas the last pre-join-point Aspect left
	steps     int    // instructions executed by the frame's own code
	firesPre  int    // Aspect invocations of the pre join point that reached the Aspect runtime
	firstGas  uint64
	hasPost   bool   // an Aspect of the post join point was invoked
	postFail  bool   // ... and the last one invoked failed
	lastPost  uint64 // gas the last post-join-point Aspect left
}

type jKey struct {
	acct   common.Address
	slot   uint256.Int
	off    uint256.Int
	hasOff bool
	ty     common.Hash
}

func keysOf(m map[uint64][][]byte) []uint64 {
	var r []uint64
	for k := range m {
		r = append(r, k)
	}
	sort.Slice(r, func(i, j int) bool { return r[i] < r[j] })
	return r
}
func keysOfB(m map[uint64]bool) []uint64 {
	var r []uint64
	for k := range m {
		r = append(r, k)
	}
	sort.Slice(r, func(i, j int) bool { return r[i] < r[j] })
	return r
}

type oNode struct {
	from       common.Address
	to         *common.Address
	data       []byte
	value      *big.Int
	gas        uint64
	parent     int
	hasOutcome bool
	ret        []byte
	left       uint64
	hasErr     bool
	errS       string
}

// frameOracles checks the frame-level properties directly on what the implementation showed,
// independently of the Coq model.  Each finding starts with the id of the property it contradicts.
func frameOracles(cs *exCase, run *exRun, transfers []transferObs, digest0, digest1 string) []string {
	var out []string
	add := func(prop, f string, a ...interface{}) {
		if len(out) < 12 {
			out = append(out, prop+": "+fmt.Sprintf(f, a...))
		}
	}
	tr := run.env.EVM.Tracer()
	tree := tr.CallTree()
	if tree.Current() != nil {
		add("C07", "a call is left open after the top-level return (node %d)", tree.Current().Index)
	}
	// C07: the recorded tree of ONE top-level call: dense indices, one parent with a smaller index listing the node among its
	// children in increasing order, lookup by index — and only the top-level call has no parent
	out = append(out, treeStructure(tree)...)
	for i := uint64(1); (cs.Entry == 0 || cs.Entry >= 4) && tree.FindCall(i) != nil; i++ { // CallCode/DelegateCall/StaticCall entry points open no node
		if tree.FindCall(i).Parent == nil {
			add("C07", "node %d was entered inside the single top-level call but has no parent", i)
			break
		}
	}
	if run.err != nil && cs.Entry < 4 && digest0 != digest1 {
		add("C04", "the top-level frame failed (%v) but the world state changed", run.err)
	}
	if !cs.Debug {
		return out // the remaining oracles read the debug-tracer stream
	}
	evs := run.rec.Events
	var stack []*oFrame
	var nodes []oNode
	var nodeStack []int
	jWant := map[jKey]map[uint64]bool{}
	jSeq := map[jKey]map[uint64][][]byte{} // value journal: per variable and call, the journaled values with immediate repeats collapsed
	curNode := func() int {
		if len(nodeStack) == 0 {
			return -1
		}
		return nodeStack[len(nodeStack)-1]
	}
	pendingNode := -1
	nextTransfer := 0
	expBal := map[common.Address]map[uint64][][]byte{}
	putBal := func(a common.Address, idx uint64, v *big.Int) {
		if expBal[a] == nil {
			expBal[a] = map[uint64][][]byte{}
		}
		b := v.Bytes()
		l := expBal[a][idx]
		if len(l) > 0 && bytes.Equal(l[len(l)-1], b) {
			return
		}
		expBal[a][idx] = append(l, b)
	}
	assignTransfers := func(upto int, node int) {
		for nextTransfer < len(transfers) && transfers[nextTransfer].EventPos <= upto {
			t := transfers[nextTransfer]
			nextTransfer++
			if node < 0 {
				add("C13", "a value transfer happened outside any CALL/CREATE frame")
				continue
			}
			putBal(t.From, uint64(node), t.B0f)
			putBal(t.To, uint64(node), t.B0t)
			putBal(t.From, uint64(node), t.B1f)
			putBal(t.To, uint64(node), t.B1t)
		}
	}
	// top-level entry points that record a node themselves
	if cs.Entry == 0 || cs.Entry >= 4 {
		n := oNode{from: exCaller, parent: -1, gas: cs.Gas, value: new(big.Int).SetUint64(cs.Value), hasOutcome: true, ret: run.ret, left: run.left}
		if cs.Entry == 0 {
			t := common.HexToAddress("0x0000000000000000000000000000000000c0de00")
			n.to = &t
			n.data = common.FromHex(cs.Input)
		} else {
			n.data = common.FromHex(cs.Codes["init"])
		}
		if run.err != nil {
			n.hasErr, n.errS = true, run.err.Error()
		}
		nodes = append(nodes, n)
		pendingNode = 0
	}
	for i := range evs {
		e := &evs[i]
		switch e.Kind {
		case "start", "enter":
			if e.Kind == "enter" && e.Op == 0xff {
				continue
			}
			f := &oFrame{open: e, kind: e.Op, node: -1}
			if e.Kind == "start" {
				f.kind = 0xf1
				if e.Create {
					f.kind = 0xf0
				}
			}
			if f.kind == 0xf1 || f.kind == 0xf0 || f.kind == 0xf5 {
				f.node = pendingNode
				pendingNode = -1
				nodeStack = append(nodeStack, f.node)
				assignTransfers(i, f.node)
			}
			stack = append(stack, f)
		case "end", "exit":
			if e.Kind == "exit" && i > 0 && evs[i-1].Kind == "enter" && evs[i-1].Op == 0xff {
				continue
			}
			if len(stack) == 0 {
				add("C18", "exit without a matching enter at event %d", i)
				continue
			}
			f := stack[len(stack)-1]
			stack = stack[:len(stack)-1]
			if f.node >= 0 {
				nodeStack = nodeStack[:len(nodeStack)-1]
				if f.node > 0 && f.node < len(nodes) {
					nodes[f.node].hasOutcome, nodes[f.node].ret, nodes[f.node].left = true, e.Output, f.open.Gas-e.Used
					nodes[f.node].hasErr, nodes[f.node].errS = e.HasErr, e.Err
				}
			}
			if e.Used > f.open.Gas {
				add("C06", "frame %x->%x reports %d gas used of %d supplied", f.open.From[17:], f.open.To[17:], e.Used, f.open.Gas)
			}
			isCallToCode := f.kind == 0xf1 && e.Kind != "end" || (e.Kind == "end" && !f.open.Create)
			if isCallToCode {
				switch {
				case len(f.providers) == 0:
				case len(f.providers) == 1 && f.providers[0]:
					// only the pre join point was queried: it must have failed (an Aspect or the provider), the
					// callee's code must not have run and the call must have failed
					if f.steps > 0 {
						add("C05", "call to %x: callee code ran but no post join point fired", f.open.To[17:])
					}
					if !e.HasErr {
						add("C05", "call to %x: no post join point fired although the call succeeded", f.open.To[17:])
					}
				case len(f.providers) == 2 && f.providers[0] && !f.providers[1]:
					if f.preFailed {
						add("C05", "call to %x: the post join point fired although the pre join point failed", f.open.To[17:])
					}
				default:
					add("C05", "call to %x: join point queries %v (expected pre then post, once each)", f.open.To[17:], f.providers)
				}
			} else if len(f.providers) > 0 {
				add("C05", "a join point fired for a frame of kind %02x", f.kind)
			}
			if len(f.providers) > 0 && f.providers[0] && f.firesPre == 0 {
				for _, b := range cs.Bindings {
					if b.Pre && !b.ProvErr && len(b.Ids) > 0 && common.HexToAddress(b.Contract) == f.open.To {
						add("C05", "call to %x (calldata %x): an Aspect is bound to the pre join point but never received it", f.open.To[17:], f.open.Input)
					}
				}
			}
			if !cs.JP && len(f.providers) > 0 {
				add("C05", "a join point fired with join points switched off")
			}
			// C06: what the post join point leaves is what the caller gets back; a failing post join point (never a
			// revert by identity) fails the frame and forfeits its gas; so does a callee error other than revert
			if f.hasPost {
				switch {
				case f.postFail && !e.HasErr:
					add("C06", "call to %x: the post join point failed but the frame reports success", f.open.To[17:])
				case f.postFail && e.Used != f.open.Gas:
					add("C06", "call to %x: the post join point failed (not a revert) but the frame hands back %d of %d gas", f.open.To[17:], f.open.Gas-e.Used, f.open.Gas)
				case !f.postFail && (!e.HasErr || e.ErrIsRevert) && e.Used != f.open.Gas-f.lastPost:
					add("C06", "call to %x: the post join point left %d gas but the frame hands back %d", f.open.To[17:], f.lastPost, f.open.Gas-e.Used)
				case !f.postFail && e.HasErr && !e.ErrIsRevert && e.Used != f.open.Gas:
					add("C06", "call to %x: the frame failed (%s) but hands back %d gas", f.open.To[17:], e.Err, f.open.Gas-e.Used)
				}
			}
			// C06: the gas a failing pre join point consumed is charged to the call it surrounds: the frame hands back what
			// the Aspect left (nothing when it ran out of gas)
			if f.hasPre && f.preFailed && f.lastPre <= f.open.Gas {
				want := f.open.Gas - f.lastPre
				if f.preErr == "out of gas" {
					want = f.open.Gas
				}
				if e.Used != want {
					add("C06", "call to %x: the pre join point failed (%s) leaving %d of %d gas, but the frame reports %d gas used", f.open.To[17:], f.preErr, f.lastPre, f.open.Gas, e.Used)
				}
			}
			if f.hasPre && !f.preFailed && f.steps > 0 && f.firstGas != f.lastPre {
				add("C06", "callee %x starts with %d gas, its pre join point left %d", f.open.To[17:], f.firstGas, f.lastPre)
			}
		case "provider":
			if len(stack) == 0 {
				add("C05", "join point queried outside any frame")
				continue
			}
			f := stack[len(stack)-1]
			f.providers = append(f.providers, e.Create)
			if e.To != f.open.To {
				add("C05", "join point queried for %x inside the frame of %x", e.To[17:], f.open.To[17:])
			}
			if e.Create && f.steps > 0 {
				add("C05", "the pre join point of %x was queried after the callee's first instruction", f.open.To[17:])
			}
		case "fire":
			if len(stack) == 0 {
				continue
			}
			f := stack[len(stack)-1]
			if e.Create {
				f.firesPre++
			} else {
				f.hasPost, f.postFail, f.lastPost = true, e.HasErr, e.ResGas
			}
			from, to, data, value, idx, _, ok := firePayload(e)
			if !ok {
				add("C05", "join point request could not be decoded")
				continue
			}
			if from != f.open.From || to != f.open.To || !bytes.Equal(data, f.open.Input) || value.Cmp(bigOr0(f.open.Value)) != 0 {
				add("C05", "join point payload (from %x to %x data %x value %s) differs from the call (from %x to %x data %x value %s)",
					from[17:], to[17:], data, value, f.open.From[17:], f.open.To[17:], f.open.Input, bigOr0(f.open.Value))
			}
			if f.node >= 0 && idx != uint64(f.node) {
				add("C05", "join point payload carries call index %d, the call is node %d", idx, f.node)
			}
		case "aspexit":
			if len(stack) > 0 && actypes.JoinPointRunType(e.JP) == actypes.JoinPointRunType_PreContractCall {
				f := stack[len(stack)-1]
				f.hasPre, f.lastPre = true, e.ResGas
				if e.HasErr {
					f.preFailed, f.preErr = true, e.Err
				}
			}
		case "state":
			if e.HasErr {
				continue
			}
			if len(stack) > 0 && e.Depth == len(stack) {
				f := stack[len(stack)-1]
				if f.steps == 0 {
					f.firstGas = e.Gas
				}
				f.steps++
			}
			faulted := i+1 < len(evs) && evs[i+1].Kind == "fault" && evs[i+1].Pc == e.Pc && evs[i+1].Depth == e.Depth
			// C10: a journaled change belongs to (account whose storage the code operates on, innermost CALL/CREATE node)
			if (e.Op == 0xe6 || e.Op == 0xe7) && !faulted {
				n := len(e.Stack)
				var k jKey
				okk := false
				if e.Op == 0xe6 && n >= 4 {
					k, okk = jKey{acct: e.Self, slot: e.Stack[n-1], off: e.Stack[n-2], hasOff: true, ty: common.Hash(e.Stack[n-4].Bytes32())}, true
				} else if e.Op == 0xe7 && n >= 2 {
					k, okk = jKey{acct: e.Self, slot: e.Stack[n-1], ty: common.Hash(e.Stack[n-2].Bytes32())}, true
				}
				if okk {
					idx := curNode()
					if idx < 0 {
						idx = 0
					}
					if jWant[k] == nil {
						jWant[k] = map[uint64]bool{}
					}
					jWant[k][uint64(idx)] = true
					if e.Op == 0xe6 && e.HasJVal {
						if jSeq[k] == nil {
							jSeq[k] = map[uint64][][]byte{}
						}
						l := jSeq[k][uint64(idx)]
						if len(l) == 0 || !bytes.Equal(l[len(l)-1], e.JVal) {
							jSeq[k][uint64(idx)] = append(l, e.JVal)
						}
					}
				}
			}
			n := len(e.Stack)
			isCall := e.Op == 0xf1 || e.Op == 0xf2 || e.Op == 0xf4 || e.Op == 0xfa
			isCreate := e.Op == 0xf0 || e.Op == 0xf5
			if (e.Op == 0xf1 || isCreate) && !faulted {
				ne := oNode{from: e.Self, parent: curNode()}
				if e.Op == 0xf1 && n >= 7 {
					to := common.Address(e.Stack[n-2].Bytes20())
					ne.to = &to
					ne.value = e.Stack[n-3].ToBig()
					ne.data = zext(e.Mem, e.Stack[n-4].Uint64(), e.Stack[n-5].Uint64())
					ne.gas = e.Used
					if !e.Stack[n-3].IsZero() {
						ne.gas += 2300
					}
				} else if isCreate && n >= 3 {
					ne.value = e.Stack[n-1].ToBig()
					ne.data = e.Input
					after := e.Gas - e.Cost
					ne.gas = after - after/64
					if impl.ForkIndex(cs.Fork) < 2 {
						ne.gas = after
					}
				}
				nodes = append(nodes, ne)
				pendingNode = len(nodes) - 1
			}
			// C04: a failed call leaves the world as it was when the call instruction started
			if (isCall || isCreate) && !faulted && e.Digest != "" {
				for k := i + 1; k < len(evs); k++ {
					x := &evs[k]
					if (x.Kind == "state" || x.Kind == "fault") && x.Depth == e.Depth {
						if x.Kind == "state" && !x.HasErr && x.Pc == e.Pc+1 && len(x.Stack) > 0 && x.Digest != "" {
							failed := x.Stack[len(x.Stack)-1].IsZero()
							if failed && isCall && sameUniverse(x.Digest, e.Digest) && x.Digest != e.Digest {
								add("C04", "the call at pc %d of %x failed (0 pushed) but the world state changed", e.Pc, e.Self[17:])
							}
							if failed && isCreate && e.Digest2 != "" && x.Digest2 != "" && sameUniverse(x.Digest2, e.Digest2) && x.Digest2 != e.Digest2 {
								add("C04", "the create at pc %d of %x failed (0 pushed) but the world state changed (beyond the creator's nonce)", e.Pc, e.Self[17:])
							}
						}
						break
					}
				}
			}
		}
	}
	assignTransfers(len(evs)+1, -1)

	// ---- C08: the recorded tree against the independent log
	for i, ne := range nodes {
		c := tree.FindCall(uint64(i))
		if c == nil {
			add("C08", "attempt %d (from %x) is not in the call tree", i, ne.from[17:])
			continue
		}
		if c.From != ne.from || (c.To == nil) != (ne.to == nil) || (c.To != nil && *c.To != *ne.to) {
			add("C08", "node %d: recorded from/to %x/%v, attempted %x/%v", i, c.From[17:], c.To, ne.from[17:], ne.to)
		}
		if !bytes.Equal(c.Data, ne.data) {
			add("C08", "node %d: recorded calldata %x differs from the calldata at the moment of the call %x", i, c.Data, ne.data)
		}
		if ne.value != nil && (c.Value == nil || c.Value.ToBig().Cmp(ne.value) != 0) {
			add("C08", "node %d: recorded value %v, attempted %s", i, c.Value, ne.value)
		}
		if c.Gas == nil || c.Gas.Uint64() != ne.gas {
			add("C08", "node %d: recorded gas %v, supplied %d", i, c.Gas, ne.gas)
		}
		if c.ParentIndex() != int64(ne.parent) {
			add("C08", "node %d: recorded under node %d, issued by the frame of node %d", i, c.ParentIndex(), ne.parent)
		}
		if ne.hasOutcome && (!bytes.Equal(c.Ret, ne.ret) || c.RemainingGas != ne.left || (c.Err != nil) != ne.hasErr) {
			add("C08", "node %d: recorded outcome (ret %x, gas %d, err %v), handed back (ret %x, gas %d, err %q)", i, c.Ret, c.RemainingGas, c.Err, ne.ret, ne.left, ne.errS)
		}
	}
	if tree.FindCall(uint64(len(nodes))) != nil {
		add("C08", "the call tree has more nodes than calls were attempted (%d)", len(nodes))
	}

	// ---- C10: call indices under which each journaled variable has entries = the frames that journaled it
	for k, want := range jWant {
		var off *uint256.Int
		if k.hasOff {
			o := k.off
			off = &o
		}
		slot := k.slot
		ch, err := tr.StateChanges().Slot(k.acct, &slot, off, k.ty)
		if err != nil || ch == nil {
			add("C10", "account %x slot %s: journal instructions succeeded but no change list is found (%v)", k.acct[17:], slot.Hex(), err)
			continue
		}
		got := ch.Changes()
		for idx := range want {
			if _, ok := got[idx]; !ok {
				add("C10", "account %x slot %s: a frame under call %d journaled a change, but the entries are filed under calls %v", k.acct[17:], slot.Hex(), idx, keysOf(got))
			}
		}
		for idx := range got {
			if !want[idx] {
				add("C10", "account %x slot %s: entries filed under call %d, where no frame journaled this variable (journaling calls: %v)", k.acct[17:], slot.Hex(), idx, keysOfB(want))
			}
		}
		// ... and per call the recorded list is the chronological sequence of journaled values, immediate repeats collapsed
		// (a reference-typed variable is indexed at offset 0: when the reference journal also wrote to this slot and type the
		// list mixes decoded strings with packed fields — left to the model correspondence)
		mixed := false
		for k2 := range jWant {
			if !k2.hasOff && k2.acct == k.acct && k2.slot.Eq(&k.slot) && k2.ty == k.ty && k.hasOff && k.off.IsZero() {
				mixed = true
			}
		}
		for idx, seq := range jSeq[k] {
			if mixed {
				break
			}
			if rec, ok := got[idx]; ok && !equalLists(rec, seq) {
				add("C10", "account %x slot %s offset %v: under call %d the frames journaled %x, the recorded list is %x", k.acct[17:], slot.Hex(), off, idx, seq, rec)
			}
		}
	}

	// ---- C13: the balance journal against the balances the wrapping transfer function saw
	seen := map[common.Address]bool{exCaller: true}
	for a := range expBal {
		seen[a] = true
	}
	for _, e := range evs {
		if e.Kind == "enter" || e.Kind == "start" {
			seen[e.From], seen[e.To] = true, true
		}
	}
	for a := range seen {
		got := tr.StateChanges().Balance(a)
		want := expBal[a]
		if got == nil {
			if len(want) > 0 {
				add("C13", "no balance journal for %x, %d transfers touched it", a[17:], len(want))
			}
			continue
		}
		g := got.Changes()
		if len(g) != len(want) {
			add("C13", "balance journal of %x has entries for %d calls, transfers touched it in %d", a[17:], len(g), len(want))
			continue
		}
		for idx, wl := range want {
			if !equalLists(g[idx], wl) {
				add("C13", "balance journal of %x under call %d is %x, the true balances were %x", a[17:], idx, g[idx], wl)
			}
		}
	}
	return out
}

// switchOracle (C05, join points switched on/off between calls): a CALL frame whose callee's code ran must have queried
// its pre join point iff the switch was on when the frame was entered, and its post join point iff it was on when the
// callee's code finished — nothing fires while the switch is off, nothing is skipped while it is on.
func switchOracle(cs *exCase, run *exRun) []string {
	var out []string
	type fr struct {
		open      *impl.Event
		kind      byte
		swEntry   bool
		providers []bool
		steps     int
	}
	cur := cs.JP
	var stack []*fr
	evs := run.rec.Events
	for i := range evs {
		e := &evs[i]
		switch e.Kind {
		case "state":
			if e.HasErr {
				continue
			}
			if len(stack) > 0 && e.Depth == len(stack) {
				stack[len(stack)-1].steps++
			}
			cur = e.Create
		case "start", "enter":
			if e.Kind == "enter" && e.Op == 0xff {
				continue
			}
			k := e.Op
			if e.Kind == "start" {
				k = 0xf1
				if e.Create {
					k = 0xf0
				}
			}
			stack = append(stack, &fr{open: e, kind: k, swEntry: cur})
		case "provider":
			if len(stack) > 0 {
				stack[len(stack)-1].providers = append(stack[len(stack)-1].providers, e.Create)
			}
		case "end", "exit":
			if e.Kind == "exit" && i > 0 && evs[i-1].Kind == "enter" && evs[i-1].Op == 0xff {
				continue
			}
			if len(stack) == 0 {
				continue
			}
			f := stack[len(stack)-1]
			stack = stack[:len(stack)-1]
			if f.kind != 0xf1 || f.steps == 0 {
				continue // only CALL frames whose callee's code demonstrably ran are judged
			}
			var want []bool
			if f.swEntry {
				want = append(want, true)
			}
			if cur {
				want = append(want, false)
			}
			if fmt.Sprint(want) != fmt.Sprint(f.providers) {
				out = append(out, fmt.Sprintf("C05: call to %x: switch %v at entry and %v when its code finished, join point queries %v (true = pre), expected %v",
					f.open.To[17:], f.swEntry, cur, f.providers, want))
			}
		}
	}
	if len(out) > 3 {
		out = out[:3]
	}
	return out
}
