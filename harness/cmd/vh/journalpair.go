package main

import (
	"context"
	"fmt"
	"math/big"

	"verifharness/internal/impl"
	"verifharness/internal/progen"
	"verifharness/internal/rng"

	"github.com/artela-network/artela-evm/vm"
	"github.com/ethereum/go-ethereum/common"
)

func init() { commands["journalpair"] = cmdJournalPair }

type pairCase struct {
	Idx      int      `json:"idx"`
	Fork     string   `json:"fork"`
	Static   bool     `json:"static"`
	CodeA    string   `json:"code_journal"`
	CodeB    string   `json:"code_pops"`
	Sites    int      `json:"journal_sites"`
	Executed int      `json:"journal_sites_executed"`
	ResultA  string   `json:"result_journal"`
	ResultB  string   `json:"result_pops"`
	Oracle   []string `json:"oracle_fail,omitempty"`
}

var journalPopsN = map[byte]int{0xe0: 3, 0xe1: 4, 0xe2: 6, 0xe3: 5, 0xe4: 6, 0xe5: 5, 0xe6: 4, 0xe7: 2}

type pairRun struct {
	ret      []byte
	left     uint64
	err      error
	root     string
	logs     int
	siteCost int64 // sum over executed sites of 800 + (n-1) - 2n
	heights  []int // stack height at each executed pc that is not inside a site
	pcs      []uint64
	executed int  // journal opcodes that executed successfully
	faultAt  bool // the run ended in a fault at a journal opcode
	pan      string
}

func runPair(fork string, static bool, code []byte, siteSet map[uint64]int, w *world, u progen.Universe) *pairRun {
	res := &pairRun{}
	rec := &impl.Recorder{}
	env := impl.NewEnv(impl.Opts{Fork: fork, Tracer: rec, JP: false})
	w.apply(env.State)
	to := u.Contracts[0]
	env.SetCode(to, code)
	env.Prepare(&to)
	caller := vm.AccountRef(exCaller)
	res.pan = impl.Guard(func() {
		if static {
			res.ret, res.left, res.err = env.EVM.StaticCall(context.Background(), caller, to, []byte{1, 2, 3, 4}, 3_000_000)
		} else {
			res.ret, res.left, res.err = env.EVM.Call(context.Background(), caller, to, []byte{1, 2, 3, 4}, 3_000_000, big.NewInt(0))
		}
	})
	// post-state without the code (the two variants differ in code by construction)
	h := ""
	for _, a := range append(append([]common.Address{}, u.Contracts...), u.EOA, u.Empty, exCaller) {
		h += fmt.Sprintf("%x:%s:%d:%v|", a[17:], env.State.GetBalance(a), env.State.GetNonce(a), env.State.Exist(a))
		for k := 0; k < 8; k++ {
			h += env.State.GetState(a, common.BigToHash(big.NewInt(int64(k)))).Hex()[60:]
		}
	}
	res.root = h
	res.logs = len(env.State.Logs())
	// positions belonging to a site (the opcode and its padding / the pops replacing it)
	inSite := func(pc uint64) bool {
		for s, n := range siteSet {
			if pc >= s && pc < s+uint64(n) {
				return true
			}
		}
		return false
	}
	evs := rec.Events
	for i, e := range evs {
		if e.Kind != "state" || e.Depth != 1 {
			continue
		}
		if _, ok := siteSet[e.Pc]; ok && e.Op >= 0xe0 && e.Op <= 0xe7 {
			if e.HasErr || (i+1 < len(evs) && evs[i+1].Kind == "fault" && evs[i+1].Pc == e.Pc) {
				res.faultAt = true
			} else {
				res.executed++
				n := int64(journalPopsN[e.Op])
				res.siteCost += 800 + (n - 1) - 2*n
			}
		}
		if e.HasErr || inSite(e.Pc) {
			continue
		}
		res.pcs = append(res.pcs, e.Pc)
		res.heights = append(res.heights, len(e.Stack))
	}
	return res
}

func cmdJournalPair(args []string) error {
	c := newCommon("journalpair")
	c.fs.Parse(args)
	r := rng.New(c.seed)
	u := progen.DefaultUniverse()
	u.Precomp = []common.Address{common.BigToAddress(big.NewInt(4))}
	var cases []pairCase
	stats := map[string]int{}
	for i := 0; i < c.n; i++ {
		rr := r.Fork()
		fork := impl.Forks[rr.Intn(len(impl.Forks))]
		fi := impl.ForkIndex(fork)
		static := fi >= 4 && rr.Intn(5) == 0
		opts := progen.Opts{Fork: fi, MaxSnips: 12, Journal: true, PadJournal: true, NoCreate: true, NoSuicide: true, SmallMem: true, NoGasObserve: true}
		// the program under comparison must not be re-entered (a nested run would execute journal sites with
		// a bounded gas budget and make the two variants diverge for reasons other than the instructions' visibility)
		ut := u
		ut.Contracts = u.Contracts[1:]
		codeA, sites := progen.ProgramSites(rr, ut, opts)
		if len(sites) == 0 {
			continue
		}
		codeB := append([]byte{}, codeA...)
		siteSet := map[uint64]int{}
		for _, s := range sites {
			n := journalPopsN[codeA[s]]
			siteSet[uint64(s)] = n
			for k := 0; k < n; k++ {
				codeB[s+k] = 0x50 // POP
			}
		}
		w := &world{Code: map[common.Address][]byte{}, Storage: map[common.Address]map[common.Hash]common.Hash{},
			Balance: map[common.Address]*big.Int{}, Nonce: map[common.Address]uint64{}}
		for k, a := range u.Contracts {
			if k == 0 {
				continue
			}
			w.Code[a] = progen.Program(rr, ut, progen.Opts{Fork: fi, MaxSnips: 5, NoCreate: true, NoSuicide: true, NoGasObserve: true})
			w.Balance[a] = big.NewInt(1000)
		}
		w.Balance[u.Contracts[0]] = big.NewInt(5000)
		w.Balance[exCaller] = big.NewInt(1_000_000)
		a := runPair(fork, static, codeA, siteSet, w, u)
		b := runPair(fork, static, codeB, siteSet, w, u)
		cs := pairCase{Idx: len(cases), Fork: fork, Static: static, CodeA: fmt.Sprintf("%x", codeA), CodeB: fmt.Sprintf("%x", codeB),
			Sites: len(sites), Executed: a.executed, ResultA: fmt.Sprint(a.err), ResultB: fmt.Sprint(b.err)}
		add := func(f string, x ...interface{}) { cs.Oracle = append(cs.Oracle, "C12: "+fmt.Sprintf(f, x...)) }
		switch {
		case a.pan != "" || b.pan != "":
			add("panic: %s %s", a.pan, b.pan)
		case a.faultAt:
			// malformed operands: the journal variant must halt exceptionally, consuming all gas
			stats["malformed-site"]++
			if a.err == nil || a.err == vm.ErrExecutionReverted || a.left != 0 {
				add("a journal instruction with malformed operands did not halt the frame like an exceptional instruction (err=%v, gas left %d)", a.err, a.left)
			}
		default:
			stats["comparable"]++
			if fmt.Sprint(a.err) != fmt.Sprint(b.err) {
				add("outcome differs: with journal instructions %v, with pops %v", a.err, b.err)
			}
			if fmt.Sprintf("%x", a.ret) != fmt.Sprintf("%x", b.ret) {
				add("return data differs: %x vs %x", a.ret, b.ret)
			}
			if a.root != b.root || a.logs != b.logs {
				add("post-state differs (%s vs %s, logs %d vs %d)", a.root, b.root, a.logs, b.logs)
			}
			if len(a.pcs) != len(b.pcs) {
				add("control flow differs: %d vs %d instructions outside the sites", len(a.pcs), len(b.pcs))
			} else {
				for k := range a.pcs {
					if a.pcs[k] != b.pcs[k] || a.heights[k] != b.heights[k] {
						add("at step %d: pc/stack height %d/%d with journal instructions, %d/%d with pops", k, a.pcs[k], a.heights[k], b.pcs[k], b.heights[k])
						break
					}
				}
			}
			// gas: each executed site costs the flat 800 plus its n-1 padding JUMPDESTs; the pops variant costs 2 per pop
			if a.err == nil && b.err == nil {
				if diff := int64(b.left) - int64(a.left); diff != a.siteCost {
					add("gas difference %d for %d executed journal instructions, expected %d (flat fee 800 each)", diff, a.executed, a.siteCost)
				}
			}
		}
		stats["fork:"+fork]++
		cases = append(cases, cs)
	}
	if err := writeJSON(c.out, "cases.json", cases); err != nil {
		return err
	}
	return writeJSON(c.out, "stats.json", stats)
}
