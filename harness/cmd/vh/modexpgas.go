package main

import (
	"fmt"
	"math/big"
	"strings"

	"verifharness/internal/items"
	"verifharness/internal/rng"

	"github.com/artela-network/artela-evm/vm"
	"github.com/ethereum/go-ethereum/common"
)

func init() { commands["modexpgas"] = cmdModExpGas }

// bigModExp.RequiredGas of both schedules (Byzantium table: EIP-198, Berlin table: EIP-2565) on headers built from powers
// of two and their neighbours, bodies that end before / inside / after the exponent, exponent heads with every leading
// bit, and the region where the EIP-2565 product crosses 2^64 (component MG: Model/ModExp.v).

type mgCase struct {
	Idx    int      `json:"idx"`
	Class  string   `json:"class"`
	EIP    bool     `json:"eip2565"`
	Input  string   `json:"input"`
	Gas    uint64   `json:"gas"`
	Oracle []string `json:"oracle_fail,omitempty"`
}

func cmdModExpGas(args []string) error {
	c := newCommon("modexpgas")
	c.fs.Parse(args)
	r := rng.New(c.seed)
	old := vm.PrecompiledContractsByzantium[common.BytesToAddress([]byte{5})]
	neu := vm.PrecompiledContractsBerlin[common.BytesToAddress([]byte{5})]
	var cases []mgCase
	var lines []string
	stats := map[string]int{}
	one := func(class string, in []byte) {
		for k, p := range []vm.PrecompiledContract{old, neu} {
			g := p.RequiredGas(in)
			cs := mgCase{Idx: len(cases), Class: class, EIP: k == 1, Input: fmt.Sprintf("%x", in), Gas: g}
			if len(cs.Input) > 400 {
				cs.Input = cs.Input[:400] + "..."
			}
			// C20 in the property's words: unless the fee is the unpayable maximum, the declared lengths (= the buffers
			// Run allocates) are within a fixed multiple of it
			if k == 1 && g != ^uint64(0) {
				b, e, m := new(big.Int).SetBytes(getDataH(in, 0, 32)), new(big.Int).SetBytes(getDataH(in, 32, 32)), new(big.Int).SetBytes(getDataH(in, 64, 32))
				if b.Sign() != 0 || m.Sign() != 0 {
					sum := new(big.Int).Add(new(big.Int).Add(b, e), m)
					bound := new(big.Int).Add(new(big.Int).Mul(big.NewInt(51), new(big.Int).SetUint64(g)), big.NewInt(66))
					if sum.Cmp(bound) > 0 {
						cs.Oracle = append(cs.Oracle, fmt.Sprintf("C20: MODEXP declares %s bytes of operands for a fee of %d gas", sum, g))
					}
				}
			}
			cases = append(cases, cs)
			lines = append(lines, items.New("MG").Bool(k == 1).B(in).N(g).String())
			stats["class:"+class]++
		}
	}
	var vals []*big.Int
	for e := uint(0); e <= 66; e++ {
		p := new(big.Int).Lsh(big.NewInt(1), e)
		vals = append(vals, p)
		if e%3 == 1 {
			vals = append(vals, new(big.Int).Sub(p, big.NewInt(1)), new(big.Int).Add(p, big.NewInt(1)), new(big.Int).Mul(p, big.NewInt(3)))
		}
	}
	vals = append(vals, big.NewInt(0), big.NewInt(31), big.NewInt(32), big.NewInt(33), big.NewInt(64), big.NewInt(65), big.NewInt(96), big.NewInt(1024), big.NewInt(1025), new(big.Int).Lsh(big.NewInt(1), 255))
	pick := func() *big.Int { return vals[r.Intn(len(vals))] }
	for k := 0; k < c.n; k++ {
		in := append(append(word(pick()), word(pick())...), word(pick())...)
		if r.Bool() {
			in = append(in, r.Bytes(r.Intn(120))...)
		}
		one("header", in)
	}
	// small, well-formed instances: the exponent head decides the adjusted length
	for k := 0; k < c.n; k++ {
		bl, el, ml := r.Intn(40), r.Intn(70), r.Intn(40)
		in := append(append(word(big.NewInt(int64(bl))), word(big.NewInt(int64(el)))...), word(big.NewInt(int64(ml)))...)
		body := r.Bytes(bl + el + ml)
		if el > 0 {
			// exponent with a chosen number of leading zero bits
			z := r.Intn(8 * minInt(el, 33))
			for i := 0; i < z/8 && i < el; i++ {
				body[bl+i] = 0
			}
			if z/8 < el {
				body[bl+z/8] &= 0xff >> uint(z%8)
			}
		}
		cut := len(body)
		if r.Intn(3) == 0 {
			cut = r.Intn(len(body) + 1) // the input ends early: zero-extended
		}
		one("instance", append(in, body[:cut]...))
	}
	// short inputs (fewer than 96 bytes: the header itself is zero-extended)
	for n := 0; n < 100; n += 3 {
		one("short", r.Bytes(n))
	}
	// the clamp region of the EIP-2565 product
	for aexp := uint(10); aexp <= 31; aexp += 3 {
		for m := uint(0); m <= 62; m += 2 {
			base := new(big.Int).Lsh(big.NewInt(8), aexp)
			exp := new(big.Int).Add(big.NewInt(32), new(big.Int).Lsh(big.NewInt(3), m))
			one("clamp", append(append(word(base), word(exp)...), word(big.NewInt(32))...))
		}
	}
	if err := writeFile(c.out, "cases.txt", strings.Join(lines, "\n")+"\n"); err != nil {
		return err
	}
	if err := writeJSON(c.out, "cases.json", cases); err != nil {
		return err
	}
	return writeJSON(c.out, "stats.json", stats)
}

func minInt(a, b int) int {
	if a < b {
		return a
	}
	return b
}

// getDataH: common.getData of the harness's own (zero-extension of short inputs)
func getDataH(data []byte, start, size int) []byte {
	if start > len(data) {
		start = len(data)
	}
	end := start + size
	if end > len(data) {
		end = len(data)
	}
	return common.RightPadBytes(data[start:end], size)
}
