package main

import (
	"context"
	"fmt"
	"math/big"
	"strings"

	"verifharness/internal/asm"
	"verifharness/internal/impl"
	"verifharness/internal/items"
	"verifharness/internal/progen"
	"verifharness/internal/rng"

	"github.com/artela-network/artela-evm/vm"
	"github.com/ethereum/go-ethereum/common"
)

func init() { commands["memsize"] = cmdMemSize }

// Memory expansion of every instruction of generated executions (all 13 rule sets): the memory length the NEXT instruction of
// the frame sees = max(length this instruction saw, the region it names rounded up to words).  Model/MemSize.v (component MS).

type msStep struct {
	op     byte
	stack  []*big.Int // top first, at most 7
	before uint64
	after  uint64
	cost   uint64
}

type msTracer struct {
	lens    []uint64  // one entry per open frame
	pending []*msStep // the last step of every open frame, waiting for the memory length its successor sees
	steps   []msStep
	keep    func(op byte) bool
}

func (t *msTracer) CaptureTxStart(uint64) {}
func (t *msTracer) CaptureTxEnd(uint64)   {}
func (t *msTracer) CaptureStart(env *vm.EVM, from, to common.Address, create bool, input []byte, gas uint64, value *big.Int) {
	t.lens = append(t.lens, 0)
	t.pending = append(t.pending, nil)
}
func (t *msTracer) CaptureEnd([]byte, uint64, error) { t.pop() }
func (t *msTracer) CaptureEnter(typ vm.OpCode, from, to common.Address, input []byte, gas uint64, value *big.Int) {
	t.lens = append(t.lens, 0)
	t.pending = append(t.pending, nil)
}
func (t *msTracer) CaptureExit([]byte, uint64, error) { t.pop() }
func (t *msTracer) pop() {
	if len(t.lens) > 0 {
		t.lens = t.lens[:len(t.lens)-1]
		t.pending = t.pending[:len(t.pending)-1]
	}
}
func (t *msTracer) CaptureState(pc uint64, op vm.OpCode, gas, cost uint64, scope *vm.ScopeContext, rData []byte, depth int, err error) {
	if len(t.lens) == 0 || depth != len(t.lens) {
		return
	}
	// the tracer is called BEFORE the instruction expands the memory ("Do tracing before memory expansion"): the length
	// seen now is what the previous instruction of this frame left
	cur := uint64(scope.Memory.Len())
	f := len(t.lens) - 1
	if p := t.pending[f]; p != nil {
		p.after = cur
		t.steps = append(t.steps, *p)
		t.pending[f] = nil
	}
	if err == nil && t.keep(byte(op)) {
		st := scope.Stack.Data()
		var top []*big.Int
		for i := 0; i < 7 && i < len(st); i++ {
			top = append(top, st[len(st)-1-i].ToBig())
		}
		t.pending[f] = &msStep{op: byte(op), stack: top, before: cur, cost: cost}
	}
	t.lens[f] = cur
}
func (t *msTracer) CaptureFault(pc uint64, op vm.OpCode, gas, cost uint64, scope *vm.ScopeContext, depth int, err error) {
}

type msCase struct {
	Idx    int      `json:"idx"`
	Fork   string   `json:"fork"`
	Op     string   `json:"op"`
	Before uint64   `json:"memory_before"`
	After  uint64   `json:"memory_after"`
	Cost   uint64   `json:"cost"`
	Oracle []string `json:"oracle_fail,omitempty"`
}

func hasMemFn(op byte) bool {
	switch op {
	case 0x20, 0x37, 0x39, 0x3c, 0x3e, 0x51, 0x52, 0x53, 0x5e, 0xa0, 0xa1, 0xa2, 0xa3, 0xa4, 0xf0, 0xf1, 0xf2, 0xf3, 0xf4, 0xf5, 0xfa, 0xfd:
		return true
	}
	return false
}

func cmdMemSize(args []string) error {
	c := newCommon("memsize")
	c.fs.Parse(args)
	r := rng.New(c.seed)
	u := progen.DefaultUniverse()
	u.Precomp = []common.Address{common.BigToAddress(big.NewInt(4)), common.BigToAddress(big.NewInt(2))}
	installHost()
	var cases []msCase
	var lines []string
	stats := map[string]int{}
	for i := 0; i < c.n; i++ {
		rr := r.Fork()
		fork := impl.Forks[rr.Intn(len(impl.Forks))]
		fi := impl.ForkIndex(fork)
		w := &world{Code: map[common.Address][]byte{}, Storage: map[common.Address]map[common.Hash]common.Hash{}, Balance: map[common.Address]*big.Int{}, Nonce: map[common.Address]uint64{}}
		for _, a := range u.Contracts {
			w.Code[a] = progen.Program(rr, u, progen.Opts{Fork: fi, MaxSnips: 14, Cancun: fork == "Cancun"})
			w.Balance[a] = big.NewInt(1000)
		}
		w.Balance[exCaller] = big.NewInt(1_000_000)
		if i%2 == 1 {
			// a memory walk: one frame, a sequence of the instructions whose price is the memory fee plus a per-word amount,
			// at offsets that mostly grow in uneven strides past the 22 words below which the quadratic term is zero
			w.Code[u.Contracts[0]] = memWalk(rr, fork == "Cancun")
			stats["walk-programs"]++
		}
		sample := rr.Fork()
		tr := &msTracer{keep: func(op byte) bool {
			if op == 0x5e && fork != "Cancun" {
				return false // the byte is undefined before Cancun
			}
			return hasMemFn(op) || sample.Intn(12) == 0
		}}
		env := impl.NewEnv(impl.Opts{Fork: fork, Tracer: tr})
		w.apply(env.State)
		to := u.Contracts[0]
		env.Prepare(&to)
		if env.Rules.IsBerlin {
			env.State.AddAddressToAccessList(exCaller)
		}
		impl.Guard(func() {
			env.EVM.Call(context.Background(), vm.AccountRef(exCaller), to, rr.Bytes(rr.Intn(40)), 2_000_000, big.NewInt(0))
		})
		for _, s := range tr.steps {
			cs := msCase{Idx: len(cases), Fork: fork, Op: fmt.Sprintf("%02x", s.op), Before: s.before, After: s.after, Cost: s.cost}
			// in the property's words (C20/C01): memory never shrinks and is a whole number of words
			if s.after < s.before || s.after%32 != 0 {
				cs.Oracle = append(cs.Oracle, fmt.Sprintf("C01: memory length %d -> %d at opcode %02x", s.before, s.after, s.op))
			}
			// C01 in the yellow paper's words: memory after = M(M(before, f1, l1), f2, l2) with M(s, f, l) = s when l = 0 and
			// max(s, 32 x ceil((f + l) / 32)) otherwise, over the regions the instruction names
			if want, ok := ypMemory(s.op, s.stack, s.before); ok && want != s.after {
				cs.Oracle = append(cs.Oracle, fmt.Sprintf("C01: opcode %02x took the memory from %d to %d bytes, the regions it names give %d", s.op, s.before, s.after, want))
			}
			// C20 in the property's words: the retained allocation is bounded by a fixed multiple of the gas charged
			// (3 gas per 32-byte word at least); C02: an instruction that only pays for memory pays the yellow-paper difference
			if hasMemFn(s.op) && s.after > s.before && 3*(s.after-s.before) > 32*s.cost {
				cs.Oracle = append(cs.Oracle, fmt.Sprintf("C20: opcode %02x grew the memory by %d bytes for %d gas", s.op, s.after-s.before, s.cost))
			}
			// ... and so are the bytes an inherited instruction copies, hashes or logs
			operand := func(i int) uint64 {
				if i < len(s.stack) && s.stack[i].IsUint64() {
					return s.stack[i].Uint64()
				}
				return ^uint64(0) >> 8
			}
			switch {
			case s.op == 0x37 || s.op == 0x39 || s.op == 0x3e || s.op == 0x5e:
				if n := operand(2); 3*n > 32*s.cost {
					cs.Oracle = append(cs.Oracle, fmt.Sprintf("C20: opcode %02x copied %d bytes for %d gas", s.op, n, s.cost))
				}
			case s.op == 0x20:
				if n := operand(1); 6*n > 32*s.cost {
					cs.Oracle = append(cs.Oracle, fmt.Sprintf("C20: KECCAK256 hashed %d bytes for %d gas", n, s.cost))
				}
			case s.op == 0xf5:
				if n := operand(2); 6*n > 32*s.cost {
					cs.Oracle = append(cs.Oracle, fmt.Sprintf("C20: CREATE2 hashed %d bytes of init code for %d gas", n, s.cost))
				}
			case s.op >= 0xa0 && s.op <= 0xa4:
				if n := operand(1); 8*n > s.cost {
					cs.Oracle = append(cs.Oracle, fmt.Sprintf("C20: opcode %02x logged %d bytes for %d gas", s.op, n, s.cost))
				}
			}
			if s.op >= 0x51 && s.op <= 0x53 {
				fee := func(n uint64) uint64 { w := n / 32; return 3*w + w*w/512 }
				if s.cost != 3+fee(s.after)-fee(s.before) {
					cs.Oracle = append(cs.Oracle, fmt.Sprintf("C02: opcode %02x charged %d with the memory going %d -> %d bytes, the reference charges %d", s.op, s.cost, s.before, s.after, 3+fee(s.after)-fee(s.before)))
				}
			}
			l := items.New("MS").N(uint64(s.op)).Open()
			for _, x := range s.stack {
				l.Big(x)
			}
			l.Close().N(s.before).N(s.after).N(s.cost).Bool(env.Rules.IsShanghai)
			lines = append(lines, l.String())
			cases = append(cases, cs)
			if hasMemFn(s.op) {
				stats["op:"+cs.Op]++
			} else {
				stats["no-memory-function"]++
			}
			if s.after > s.before {
				stats["expanded"]++
				if s.before > 0 {
					stats["expanded-non-empty"]++
				}
				if s.after >= 736 {
					stats["expanded-to-23-words-or-more"]++ // from here the quadratic term of the fee is not zero
				}
			}
		}
	}
	if err := writeFile(c.out, "cases.txt", strings.Join(lines, "\n")+"\n"); err != nil {
		return err
	}
	if err := writeJSON(c.out, "cases.json", cases); err != nil {
		return err
	}
	return writeJSON(c.out, "stats.json", stats)
}

func memWalk(r *rng.R, cancun bool) []byte {
	b := asm.New()
	pos := uint64(0)
	n := 4 + r.Intn(14)
	for k := 0; k < n; k++ {
		switch r.Intn(6) {
		case 0:
			pos += uint64(r.Intn(40))
		case 1:
			pos += uint64(r.Intn(700))
		case 2:
			pos += uint64(r.Intn(9000))
		case 3:
			pos = uint64(r.Intn(int(pos) + 1)) // back inside what exists
		case 4:
			pos += 32 * uint64(r.Intn(30))
		case 5:
			pos += 1
		}
		ln := uint64(r.Intn(100))
		if r.Intn(4) == 0 {
			ln = 0
		}
		switch r.Intn(12) {
		case 10, 11:
			// a call to the identity precompile: input and output regions of independent (often zero) length at
			// independent offsets, each side of what exists
			lenOf := func() uint64 {
				if r.Intn(3) == 0 {
					return 0
				}
				return uint64(r.Intn(70))
			}
			offOf := func() uint64 {
				if r.Bool() {
					return pos + uint64(r.Intn(500))
				}
				return uint64(r.Intn(int(pos) + 1))
			}
			b.Push(lenOf()).Push(offOf()).Push(lenOf()).Push(offOf())
			switch r.Intn(4) {
			case 0:
				b.Push(0).Push(4).Push(50000).Op(0xf1, 0x50)
			case 1:
				b.Push(0).Push(4).Push(50000).Op(0xf2, 0x50)
			case 2:
				b.Push(4).Push(50000).Op(0xf4, 0x50)
			default:
				b.Push(4).Push(50000).Op(0xfa, 0x50)
			}
		case 9:
			// creations over memory that mostly exists already (init code = zero-led memory content: STOP)
			if r.Bool() {
				b.Push(uint64(k)).Push(ln * 40).Push(uint64(r.Intn(int(pos) + 1))).Push(0).Op(0xf5, 0x50)
			} else {
				b.Push(ln * 40).Push(uint64(r.Intn(int(pos) + 1))).Push(0).Op(0xf0, 0x50)
			}
		case 0:
			b.Push(pos).Op(asm.MLOAD, 0x50)
		case 1:
			b.Push(uint64(k)).Push(pos).Op(asm.MSTORE)
		case 2:
			b.Push(uint64(k)).Push(pos).Op(asm.MSTORE8)
		case 3:
			b.Push(ln).Push(pos).Op(0x20, 0x50) // KECCAK256 POP
		case 4:
			b.Push(ln).Push(uint64(r.Intn(50))).Push(pos).Op(0x37) // CALLDATACOPY
		case 5:
			b.Push(ln).Push(uint64(r.Intn(50))).Push(pos).Op(0x39) // CODECOPY
		case 6:
			if cancun {
				b.Push(ln).Push(uint64(r.Intn(int(pos) + 64))).Push(pos).Op(0x5e) // MCOPY
			} else {
				b.Push(pos).Op(asm.MLOAD, 0x50)
			}
		case 7:
			t := r.Intn(3)
			for j := 0; j < t; j++ {
				b.Push(uint64(j))
			}
			b.Push(ln).Push(pos).Op(0xa0 + byte(t)) // LOGt
		case 8:
			b.Push(0).Push(0).Push(pos).Op(0x3e) // RETURNDATACOPY of nothing: never expands, whatever the offset
		}
	}
	return b.Op(0x00).Bytes()
}

// ypMemory: the yellow paper's memory expansion for the regions an instruction names (ok = false: an operand does not fit
// 63 bits, the step cannot succeed and was not recorded, or the opcode names no region)
func ypMemory(op byte, st []*big.Int, before uint64) (uint64, bool) {
	type reg struct{ off, ln int } // stack positions; ln < 0: the constant -ln
	var regs []reg
	switch {
	case op == 0x20, op >= 0xa0 && op <= 0xa4, op == 0xf3, op == 0xfd:
		regs = []reg{{0, 1}}
	case op == 0x37, op == 0x39, op == 0x3e:
		regs = []reg{{0, 2}}
	case op == 0x3c:
		regs = []reg{{1, 3}}
	case op == 0x51, op == 0x52:
		regs = []reg{{0, -32}}
	case op == 0x53:
		regs = []reg{{0, -1}}
	case op == 0x5e:
		regs = []reg{{0, 2}, {1, 2}}
	case op == 0xf0, op == 0xf5:
		regs = []reg{{1, 2}}
	case op == 0xf1, op == 0xf2:
		regs = []reg{{3, 4}, {5, 6}}
	case op == 0xf4, op == 0xfa:
		regs = []reg{{2, 3}, {4, 5}}
	default:
		return 0, false
	}
	want := before
	for _, g := range regs {
		var ln uint64
		if g.ln < 0 {
			ln = uint64(-g.ln)
		} else {
			if g.ln >= len(st) || st[g.ln].BitLen() > 62 {
				return 0, false
			}
			ln = st[g.ln].Uint64()
		}
		if ln == 0 {
			continue
		}
		if g.off >= len(st) || st[g.off].BitLen() > 62 {
			return 0, false
		}
		if need := (st[g.off].Uint64() + ln + 31) / 32 * 32; need > want {
			want = need
		}
	}
	return want, true
}
