package main

// precompdiff — the standard precompiles (0x01-0x09, all four historical tables) of artela-evm against go-ethereum
// v1.12.0's: the fee RequiredGas computes for an input and, when the fee is payable with a moderate budget, the result
// of running it.  Inputs: generic byte strings of boundary lengths, and for MODEXP (0x05) headers whose three length
// words sweep powers of two and their neighbours (where the 64-bit clamps of the pricing formula act).

import (
	"github.com/ethereum/go-ethereum/crypto"
	"github.com/ethereum/go-ethereum/crypto/bn256"

	"bytes"
	"context"
	"fmt"
	"math/big"

	"verifharness/internal/impl"
	"verifharness/internal/rng"

	"github.com/artela-network/artela-evm/vm"
	"github.com/ethereum/go-ethereum/common"
	ethvm "github.com/ethereum/go-ethereum/core/vm"
)

func init() { commands["precompdiff"] = cmdPrecompDiff }

type pdCase struct {
	Idx    int      `json:"idx"`
	Table  string   `json:"table"`
	Addr   int      `json:"addr"`
	Class  string   `json:"class"`
	Input  string   `json:"input"`
	Gas    uint64   `json:"required_gas"`
	Ran    bool     `json:"ran"`
	Oracle []string `json:"oracle_fail,omitempty"`
}

func cmdPrecompDiff(args []string) error {
	c := newCommon("precompdiff")
	c.fs.Parse(args)
	r := rng.New(c.seed)
	tables := []struct {
		name string
		a    map[common.Address]vm.PrecompiledContract
		u    map[common.Address]ethvm.PrecompiledContract
	}{
		{"Homestead", vm.PrecompiledContractsHomestead, ethvm.PrecompiledContractsHomestead},
		{"Byzantium", vm.PrecompiledContractsByzantium, ethvm.PrecompiledContractsByzantium},
		{"Istanbul", vm.PrecompiledContractsIstanbul, ethvm.PrecompiledContractsIstanbul},
		{"Berlin", vm.PrecompiledContractsBerlin, ethvm.PrecompiledContractsBerlin},
	}
	var cases []pdCase
	stats := map[string]int{}
	word := func(v *big.Int) []byte { return common.LeftPadBytes(v.Bytes(), 32) }
	one := func(table string, addr int, class string, in []byte, a vm.PrecompiledContract, u ethvm.PrecompiledContract) {
		cs := pdCase{Idx: len(cases), Table: table, Addr: addr, Class: class}
		if len(in) <= 200 {
			cs.Input = fmt.Sprintf("%x", in)
		} else {
			cs.Input = fmt.Sprintf("%x...(%d bytes)", in[:96], len(in))
		}
		var ga, gu uint64
		pa := impl.Guard(func() { ga = a.RequiredGas(in) })
		pu := impl.Guard(func() { gu = u.RequiredGas(in) })
		cs.Gas = ga
		if pa != pu {
			cs.Oracle = append(cs.Oracle, fmt.Sprintf("C01: RequiredGas panics differ: artela=%q reference=%q", firstLine(pa), firstLine(pu)))
		} else if ga != gu {
			cs.Oracle = append(cs.Oracle, fmt.Sprintf("C02: precompile 0x%02x charges %d gas, the reference %d, for this input", addr, ga, gu),
				fmt.Sprintf("C20: precompile 0x%02x charges %d gas for work the reference prices at %d", addr, ga, gu))
		}
		if ga == gu && ga <= 3_000_000 && pa == "" {
			cs.Ran = true
			var ra, ru []byte
			var la, lu uint64
			var ea, eu error
			pa = impl.Guard(func() { ra, la, ea = vm.RunPrecompiledContract(context.Background(), a, in, 3_000_000) })
			pu = impl.Guard(func() { ru, lu, eu = ethvm.RunPrecompiledContract(u, in, 3_000_000) })
			if pa != pu || !bytes.Equal(ra, ru) || la != lu || (ea == nil) != (eu == nil) {
				cs.Oracle = append(cs.Oracle, fmt.Sprintf("C01: precompile 0x%02x: result %x / %d gas left / %v, reference %x / %d / %v (panics %q %q)", addr, ra, la, ea, ru, lu, eu, firstLine(pa), firstLine(pu)))
			}
		}
		stats["table:"+table]++
		stats["class:"+class]++
		cases = append(cases, cs)
	}
	lens := []int{0, 1, 31, 32, 33, 63, 64, 65, 95, 96, 97, 127, 128, 129, 191, 192, 193, 212, 213, 214, 255, 256, 384, 1000}
	for _, t := range tables {
		for addr := 1; addr <= 9; addr++ {
			a, ok1 := t.a[common.BytesToAddress([]byte{byte(addr)})]
			u, ok2 := t.u[common.BytesToAddress([]byte{byte(addr)})]
			if ok1 != ok2 {
				cases = append(cases, pdCase{Idx: len(cases), Table: t.name, Addr: addr, Class: "presence",
					Oracle: []string{fmt.Sprintf("C01: precompile 0x%02x present in artela=%v reference=%v", addr, ok1, ok2)}})
				continue
			}
			if !ok1 {
				continue
			}
			for _, n := range lens {
				one(t.name, addr, "zeros", make([]byte, n), a, u)
				one(t.name, addr, "random", r.Bytes(n), a, u)
			}
			for k := 0; k < c.n/40+1; k++ {
				one(t.name, addr, "random", r.Bytes(r.Intn(400)), a, u)
			}
			for k := 0; k < 12+c.n/20; k++ {
				if in := structuredPrecompileInput(r, addr); in != nil {
					one(t.name, addr, "structured", in, a, u)
				}
			}
			if addr != 5 {
				continue
			}
			// MODEXP: headers (baseLen, expLen, modLen) from powers of two and neighbours, short body
			var vals []*big.Int
			for e := uint(0); e <= 66; e++ {
				p := new(big.Int).Lsh(big.NewInt(1), e)
				vals = append(vals, p)
				if e%4 == 1 {
					vals = append(vals, new(big.Int).Sub(p, big.NewInt(1)), new(big.Int).Add(p, big.NewInt(1)), new(big.Int).Mul(p, big.NewInt(3)))
				}
			}
			vals = append(vals, big.NewInt(0), big.NewInt(32), big.NewInt(33), big.NewInt(64), big.NewInt(96))
			pick := func() *big.Int { return vals[r.Intn(len(vals))] }
			for k := 0; k < 400+c.n; k++ {
				in := append(append(word(pick()), word(pick())...), word(pick())...)
				if r.Bool() {
					in = append(in, r.Bytes(r.Intn(80))...)
				}
				one(t.name, addr, "modexp-header", in, a, u)
			}
			// the clamp region of the EIP-2565 formula: words^2 * adjusted exponent length / 3 around 2^64
			for aexp := uint(10); aexp <= 31; aexp++ {
				for m := uint(0); m <= 62; m += 1 {
					base := new(big.Int).Lsh(big.NewInt(8), aexp)
					exp := new(big.Int).Add(big.NewInt(32), new(big.Int).Lsh(big.NewInt(3), m))
					in := append(append(word(base), word(exp)...), word(big.NewInt(32))...)
					one(t.name, addr, "modexp-clamp", in, a, u)
				}
			}
		}
	}
	if err := writeJSON(c.out, "cases.json", cases); err != nil {
		return err
	}
	return writeJSON(c.out, "stats.json", stats)
}

// structuredPrecompileInput draws a mostly well-formed input for a standard precompile: valid signatures, curve points,
// pairings that hold and that do not, small MODEXP instances with edge operands, BLAKE2 F blocks with every final flag.
func structuredPrecompileInput(r *rng.R, addr int) []byte {
	w32 := func(b []byte) []byte { return common.LeftPadBytes(b, 32) }
	switch addr {
	case 1: // ECRECOVER: hash | v | r | s
		key, _ := crypto.ToECDSA(w32([]byte{byte(1 + r.Intn(200)), 7, 9}))
		hash := r.Bytes(32)
		sig, err := crypto.Sign(hash, key)
		if err != nil {
			return nil
		}
		v := new(big.Int).SetUint64(uint64(sig[64]) + 27)
		rr, ss := sig[:32], sig[32:64]
		switch r.Intn(8) {
		case 0:
			v = big.NewInt(29)
		case 1:
			v = new(big.Int).Lsh(big.NewInt(1), 200) // v does not fit a byte
		case 2:
			rr = make([]byte, 32)
		case 3: // high s (malleable form): n - s
			n, _ := new(big.Int).SetString("fffffffffffffffffffffffffffffffebaaedce6af48a03bbfd25e8cd0364141", 16)
			ss = w32(new(big.Int).Sub(n, new(big.Int).SetBytes(ss)).Bytes())
			v = new(big.Int).SetUint64(uint64(1-sig[64]) + 27)
		}
		in := append(append(append(append([]byte{}, hash...), w32(v.Bytes())...), rr...), ss...)
		if r.Intn(6) == 0 {
			in = append(in, r.Bytes(r.Intn(40))...) // trailing bytes are ignored
		}
		return in
	case 5: // MODEXP: small instance, edge operands
		pickN := func() *big.Int {
			switch r.Intn(6) {
			case 0:
				return big.NewInt(0)
			case 1:
				return big.NewInt(1)
			case 2:
				return big.NewInt(2)
			default:
				return new(big.Int).SetBytes(r.Bytes(1 + r.Intn(40)))
			}
		}
		b, e, m := pickN(), pickN(), pickN()
		bl, el, ml := len(b.Bytes())+r.Intn(3), len(e.Bytes())+r.Intn(3), len(m.Bytes())+r.Intn(3)
		in := append(append(w32(big.NewInt(int64(bl)).Bytes()), w32(big.NewInt(int64(el)).Bytes())...), w32(big.NewInt(int64(ml)).Bytes())...)
		in = append(in, common.LeftPadBytes(b.Bytes(), bl)...)
		in = append(in, common.LeftPadBytes(e.Bytes(), el)...)
		in = append(in, common.LeftPadBytes(m.Bytes(), ml)...)
		if r.Intn(5) == 0 && len(in) > 97 {
			in = in[:len(in)-1-r.Intn(3)] // truncated body: zero-extended
		}
		return in
	case 6, 7, 8: // alt_bn128 add / mul / pairing check
		g1 := func(k int64) []byte { return new(bn256.G1).ScalarBaseMult(big.NewInt(k)).Marshal() }
		g2 := func(k int64) []byte { return new(bn256.G2).ScalarBaseMult(big.NewInt(k)).Marshal() }
		k1, k2 := int64(1+r.Intn(50)), int64(1+r.Intn(50))
		switch addr {
		case 6:
			in := append(g1(k1), g1(k2)...)
			switch r.Intn(5) {
			case 0:
				in = append(g1(k1), make([]byte, 64)...) // + point at infinity
			case 1:
				in[63] ^= 1 // not on the curve
			case 2:
				in = in[:64+r.Intn(64)] // truncated: zero-extended
			}
			return in
		case 7:
			sc := r.Bytes(32)
			if r.Intn(4) == 0 {
				sc = make([]byte, 32)
			}
			in := append(g1(k1), sc...)
			if r.Intn(6) == 0 {
				in[31] ^= 1
			}
			return in
		default:
			var in []byte
			switch r.Intn(4) {
			case 0: // e(aG1, bG2) * e(-abG1, G2) == 1
				neg := new(bn256.G1).ScalarBaseMult(big.NewInt(k1 * k2))
				neg.Neg(neg)
				in = append(append(append(g1(k1), g2(k2)...), neg.Marshal()...), g2(1)...)
			case 1: // a pairing product that is not 1
				in = append(append(append(g1(k1), g2(k2)...), g1(k2)...), g2(1)...)
			case 2:
				in = nil // empty input: product over nothing is 1
				return []byte{}
			default:
				in = append(g1(k1), g2(k2)...)
				in[100] ^= 4 // G2 point off the curve / not in the subgroup
			}
			return in
		}
	case 9: // BLAKE2 F: rounds(4) | h(64) | m(128) | t(16) | f(1)
		in := make([]byte, 213)
		copy(in, r.Bytes(213))
		rounds := uint32(r.Intn(20))
		in[0], in[1], in[2], in[3] = byte(rounds>>24), byte(rounds>>16), byte(rounds>>8), byte(rounds)
		in[212] = byte(r.Intn(3)) // 0, 1 valid; 2 invalid final flag
		return in
	case 2, 3, 4:
		return r.Bytes(r.Intn(200))
	}
	return nil
}
