package main

// precompdiff — the standard precompiles (0x01-0x09, all four historical tables) of artela-evm against go-ethereum
// v1.12.0's: the fee RequiredGas computes for an input and, when the fee is payable with a moderate budget, the result
// of running it.  Inputs: generic byte strings of boundary lengths, and for MODEXP (0x05) headers whose three length
// words sweep powers of two and their neighbours (where the 64-bit clamps of the pricing formula act).

import (
	"bytes"
	"context"
	"fmt"
	"math/big"

	"verifharness/internal/impl"
	"verifharness/internal/rng"

	"github.com/artela-network/artela-evm/vm"
	"github.com/ethereum/go-ethereum/common"
	ethvm "github.com/ethereum/go-ethereum/core/vm"
)

func init() { commands["precompdiff"] = cmdPrecompDiff }

type pdCase struct {
	Idx    int      `json:"idx"`
	Table  string   `json:"table"`
	Addr   int      `json:"addr"`
	Class  string   `json:"class"`
	Input  string   `json:"input"`
	Gas    uint64   `json:"required_gas"`
	Ran    bool     `json:"ran"`
	Oracle []string `json:"oracle_fail,omitempty"`
}

func cmdPrecompDiff(args []string) error {
	c := newCommon("precompdiff")
	c.fs.Parse(args)
	r := rng.New(c.seed)
	tables := []struct {
		name string
		a    map[common.Address]vm.PrecompiledContract
		u    map[common.Address]ethvm.PrecompiledContract
	}{
		{"Homestead", vm.PrecompiledContractsHomestead, ethvm.PrecompiledContractsHomestead},
		{"Byzantium", vm.PrecompiledContractsByzantium, ethvm.PrecompiledContractsByzantium},
		{"Istanbul", vm.PrecompiledContractsIstanbul, ethvm.PrecompiledContractsIstanbul},
		{"Berlin", vm.PrecompiledContractsBerlin, ethvm.PrecompiledContractsBerlin},
	}
	var cases []pdCase
	stats := map[string]int{}
	word := func(v *big.Int) []byte { return common.LeftPadBytes(v.Bytes(), 32) }
	one := func(table string, addr int, class string, in []byte, a vm.PrecompiledContract, u ethvm.PrecompiledContract) {
		cs := pdCase{Idx: len(cases), Table: table, Addr: addr, Class: class}
		if len(in) <= 200 {
			cs.Input = fmt.Sprintf("%x", in)
		} else {
			cs.Input = fmt.Sprintf("%x...(%d bytes)", in[:96], len(in))
		}
		var ga, gu uint64
		pa := impl.Guard(func() { ga = a.RequiredGas(in) })
		pu := impl.Guard(func() { gu = u.RequiredGas(in) })
		cs.Gas = ga
		if pa != pu {
			cs.Oracle = append(cs.Oracle, fmt.Sprintf("C01: RequiredGas panics differ: artela=%q reference=%q", firstLine(pa), firstLine(pu)))
		} else if ga != gu {
			cs.Oracle = append(cs.Oracle, fmt.Sprintf("C02: precompile 0x%02x charges %d gas, the reference %d, for this input", addr, ga, gu),
				fmt.Sprintf("C20: precompile 0x%02x charges %d gas for work the reference prices at %d", addr, ga, gu))
		}
		if ga == gu && ga <= 3_000_000 && pa == "" {
			cs.Ran = true
			var ra, ru []byte
			var la, lu uint64
			var ea, eu error
			pa = impl.Guard(func() { ra, la, ea = vm.RunPrecompiledContract(context.Background(), a, in, 3_000_000) })
			pu = impl.Guard(func() { ru, lu, eu = ethvm.RunPrecompiledContract(u, in, 3_000_000) })
			if pa != pu || !bytes.Equal(ra, ru) || la != lu || (ea == nil) != (eu == nil) {
				cs.Oracle = append(cs.Oracle, fmt.Sprintf("C01: precompile 0x%02x: result %x / %d gas left / %v, reference %x / %d / %v (panics %q %q)", addr, ra, la, ea, ru, lu, eu, firstLine(pa), firstLine(pu)))
			}
		}
		stats["table:"+table]++
		stats["class:"+class]++
		cases = append(cases, cs)
	}
	lens := []int{0, 1, 31, 32, 33, 63, 64, 65, 95, 96, 97, 127, 128, 129, 191, 192, 193, 212, 213, 214, 255, 256, 384, 1000}
	for _, t := range tables {
		for addr := 1; addr <= 9; addr++ {
			a, ok1 := t.a[common.BytesToAddress([]byte{byte(addr)})]
			u, ok2 := t.u[common.BytesToAddress([]byte{byte(addr)})]
			if ok1 != ok2 {
				cases = append(cases, pdCase{Idx: len(cases), Table: t.name, Addr: addr, Class: "presence",
					Oracle: []string{fmt.Sprintf("C01: precompile 0x%02x present in artela=%v reference=%v", addr, ok1, ok2)}})
				continue
			}
			if !ok1 {
				continue
			}
			for _, n := range lens {
				one(t.name, addr, "zeros", make([]byte, n), a, u)
				one(t.name, addr, "random", r.Bytes(n), a, u)
			}
			for k := 0; k < c.n/40+1; k++ {
				one(t.name, addr, "random", r.Bytes(r.Intn(400)), a, u)
			}
			if addr != 5 {
				continue
			}
			// MODEXP: headers (baseLen, expLen, modLen) from powers of two and neighbours, short body
			var vals []*big.Int
			for e := uint(0); e <= 66; e++ {
				p := new(big.Int).Lsh(big.NewInt(1), e)
				vals = append(vals, p)
				if e%4 == 1 {
					vals = append(vals, new(big.Int).Sub(p, big.NewInt(1)), new(big.Int).Add(p, big.NewInt(1)), new(big.Int).Mul(p, big.NewInt(3)))
				}
			}
			vals = append(vals, big.NewInt(0), big.NewInt(32), big.NewInt(33), big.NewInt(64), big.NewInt(96))
			pick := func() *big.Int { return vals[r.Intn(len(vals))] }
			for k := 0; k < 400+c.n; k++ {
				in := append(append(word(pick()), word(pick())...), word(pick())...)
				if r.Bool() {
					in = append(in, r.Bytes(r.Intn(80))...)
				}
				one(t.name, addr, "modexp-header", in, a, u)
			}
			// the clamp region of the EIP-2565 formula: words^2 * adjusted exponent length / 3 around 2^64
			for aexp := uint(10); aexp <= 31; aexp++ {
				for m := uint(0); m <= 62; m += 1 {
					base := new(big.Int).Lsh(big.NewInt(8), aexp)
					exp := new(big.Int).Add(big.NewInt(32), new(big.Int).Lsh(big.NewInt(3), m))
					in := append(append(word(base), word(exp)...), word(big.NewInt(32))...)
					one(t.name, addr, "modexp-clamp", in, a, u)
				}
			}
		}
	}
	if err := writeJSON(c.out, "cases.json", cases); err != nil {
		return err
	}
	return writeJSON(c.out, "stats.json", stats)
}
