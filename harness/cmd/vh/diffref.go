package main

import (
	"context"
	"crypto/sha256"
	"encoding/hex"
	"fmt"
	"math/big"
	"sort"
	"strings"

	"verifharness/internal/gen"
	"verifharness/internal/impl"
	"verifharness/internal/progen"
	"verifharness/internal/ref"
	"verifharness/internal/rng"

	"github.com/artela-network/artela-evm/vm"
	"github.com/ethereum/go-ethereum/common"
	"github.com/ethereum/go-ethereum/core/state"
	ethvm "github.com/ethereum/go-ethereum/core/vm"
	"github.com/holiman/uint256"
)

func init() { commands["diffref"] = cmdDiffRef }

// world is a pre-state description applied identically to both state databases.
type world struct {
	Code    map[common.Address][]byte
	Storage map[common.Address]map[common.Hash]common.Hash
	Balance map[common.Address]*big.Int
	Nonce   map[common.Address]uint64
}

func (w *world) apply(st *state.StateDB) {
	addrs := map[common.Address]bool{}
	for a := range w.Code {
		addrs[a] = true
	}
	for a := range w.Balance {
		addrs[a] = true
	}
	var list []common.Address
	for a := range addrs {
		list = append(list, a)
	}
	sort.Slice(list, func(i, j int) bool { return list[i].Hex() < list[j].Hex() })
	for _, a := range list {
		st.CreateAccount(a)
		if c, ok := w.Code[a]; ok {
			st.SetCode(a, c)
		}
		if b, ok := w.Balance[a]; ok {
			st.SetBalance(a, b)
		}
		if n, ok := w.Nonce[a]; ok {
			st.SetNonce(a, n)
		}
		for k, v := range w.Storage[a] {
			st.SetState(a, k, v)
		}
	}
	st.Finalise(false) // make the pre-state "original" for net gas metering
	st.IntermediateRoot(false)
}

type runResult struct {
	Ret     string   `json:"ret"`
	Err     string   `json:"err"`
	Left    uint64   `json:"left"`
	Addr    string   `json:"addr,omitempty"`
	Root    string   `json:"root"`
	Logs    string   `json:"logs"`
	Refund  uint64   `json:"refund"`
	Suicide []string `json:"suicides"`
	Panic   string   `json:"panic,omitempty"`
	Events  []string `json:"-"`
	NonStd  bool     `json:"-"`
	Gases   []uint64 `json:"-"`
}

type diffCase struct {
	Idx     int               `json:"idx"`
	Fork    string            `json:"fork"`
	Entry   int               `json:"entry"`
	JP      bool              `json:"jp"`
	Tracer  bool              `json:"tracer"`
	Eips    []int             `json:"eips,omitempty"`
	Gas     uint64            `json:"gas"`
	Value   uint64            `json:"value"`
	Input   string            `json:"input"`
	Codes   map[string]string `json:"codes"`
	Class   string            `json:"class"`
	Steps   int               `json:"steps"`
	Artela  *runResult        `json:"artela,omitempty"`
	Up      *runResult        `json:"upstream,omitempty"`
	Oracle  []string          `json:"oracle_fail,omitempty"`
	Skipped string            `json:"skipped,omitempty"`
}

// normErr maps an error text to its class where the text legitimately differs between the two code bases:
// Artela renamed opcode bytes (TLOAD/TSTORE moved to 0x5c/0x5d, MCOPY added), so the NAME printed for an
// undefined opcode differs; the class "invalid opcode" is what the property speaks about.
func normErr(e string) string {
	if strings.HasPrefix(e, "invalid opcode: ") {
		return "invalid opcode"
	}
	return e
}

func evString(kind string, op byte, pc, gas, cost uint64, depth int, err string, from, to common.Address, create bool, input []byte, value *big.Int, output []byte, used uint64, stack []uint256.Int, memLen int, rdata []byte) string {
	err = normErr(err)
	switch kind {
	case "state", "fault":
		h := sha256.New()
		for i := range stack {
			b := stack[i].Bytes32()
			h.Write(b[:])
		}
		return fmt.Sprintf("%s pc=%d op=%02x gas=%d cost=%d depth=%d err=%q stack=%d:%x mem=%d rdata=%x", kind, pc, op, gas, cost, depth, err, len(stack), h.Sum(nil)[:6], memLen, rdata)
	case "start", "enter":
		v := "nil"
		if value != nil {
			v = value.String()
		}
		return fmt.Sprintf("%s op=%02x from=%x to=%x create=%v input=%x gas=%d value=%s", kind, op, from[16:], to[16:], create, input, gas, v)
	default:
		return fmt.Sprintf("%s output=%x used=%d err=%q gas=%d", kind, output, used, err, gas)
	}
}

func isArtelaAddr(w *uint256.Int) bool {
	return w.IsUint64() && w.Uint64() >= 0x64 && w.Uint64() <= 0x66
}

// nonStandard: does this step leave the "standard program" fragment (journal opcode executed, or an
// Artela precompile address used as an operand)?
func nonStandard(op byte, stack []uint256.Int) bool {
	if op >= 0xe0 && op <= 0xe7 {
		return true
	}
	n := len(stack)
	switch op {
	case 0x31, 0x3b, 0x3c, 0x3f, 0xff: // BALANCE EXTCODESIZE EXTCODECOPY EXTCODEHASH SELFDESTRUCT: address on top
		return n >= 1 && isArtelaAddr(&stack[n-1])
	case 0xf1, 0xf2, 0xf4, 0xfa: // CALL family: address second
		return n >= 2 && isArtelaAddr(&stack[n-2])
	}
	return false
}

func finishResult(res *runResult, st *state.StateDB, fork string, u progen.Universe) {
	var sui []string
	for _, a := range append(append([]common.Address{}, u.Contracts...), u.EOA, u.Empty) {
		if st.HasSuicided(a) {
			sui = append(sui, a.Hex())
		}
	}
	res.Suicide = sui
	res.Refund = st.GetRefund()
	h := sha256.New()
	for _, l := range st.Logs() {
		h.Write(l.Address[:])
		for _, t := range l.Topics {
			h.Write(t[:])
		}
		h.Write(l.Data)
		h.Write([]byte{0xff})
	}
	res.Logs = fmt.Sprintf("%d:%x", len(st.Logs()), h.Sum(nil)[:8])
	res.Root = st.IntermediateRoot(impl.ForkIndex(fork) >= 3).Hex()
}

var diffCaller = common.HexToAddress("0x00000000000000000000000000000000000ca11e")

func runArtela(c *diffCase, w *world, u progen.Universe, code0 []byte) *runResult {
	res := &runResult{}
	var rec *impl.Recorder
	var tr vm.EVMLogger
	if c.Tracer {
		rec = &impl.Recorder{}
		tr = rec
	}
	env := impl.NewEnv(impl.Opts{Fork: c.Fork, Tracer: tr, JP: c.JP, ExtraEips: c.Eips})
	w.apply(env.State)
	to := u.Contracts[0]
	env.Prepare(&to)
	if env.Rules.IsBerlin {
		env.State.AddAddressToAccessList(diffCaller) // the transaction sender is always warm
	}
	input, _ := hex.DecodeString(c.Input)
	value := new(big.Int).SetUint64(c.Value)
	var ret []byte
	var left uint64
	var err error
	var addr common.Address
	caller := vm.AccountRef(diffCaller)
	res.Panic = impl.Guard(func() {
		ctx := context.Background()
		switch c.Entry {
		case 0:
			ret, left, err = env.EVM.Call(ctx, caller, to, input, c.Gas, value)
		case 1:
			ret, left, err = env.EVM.CallCode(ctx, caller, to, input, c.Gas, value)
		case 2:
			parent := vm.NewContract(caller, caller, value, c.Gas)
			ret, left, err = env.EVM.DelegateCall(ctx, parent, to, input, c.Gas)
		case 3:
			ret, left, err = env.EVM.StaticCall(ctx, caller, to, input, c.Gas)
		case 4:
			ret, addr, left, err = env.EVM.Create(ctx, caller, code0, c.Gas, value)
		default:
			ret, addr, left, err = env.EVM.Create2(ctx, caller, code0, c.Gas, value, uint256.NewInt(7))
		}
	})
	res.Ret, res.Left = hex.EncodeToString(ret), left
	if err != nil {
		res.Err = normErr(err.Error())
	}
	if c.Entry >= 4 {
		res.Addr = addr.Hex()
	}
	finishResult(res, env.State, c.Fork, u)
	if rec != nil {
		for _, e := range rec.Events {
			if e.Kind == "state" {
				res.Gases = append(res.Gases, e.Gas)
				if nonStandard(e.Op, e.Stack) {
					res.NonStd = true
				}
			}
			res.Events = append(res.Events, evString(e.Kind, e.Op, e.Pc, e.Gas, e.Cost, e.Depth, e.Err, e.From, e.To, e.Create, e.Input, e.Value, e.Output, e.Used, e.Stack, len(e.Mem), e.RData))
		}
	}
	return res
}

func runUpstream(c *diffCase, w *world, u progen.Universe, code0 []byte) *runResult {
	res := &runResult{}
	var rec *ref.Recorder
	var tr ethvm.EVMLogger
	if c.Tracer {
		rec = &ref.Recorder{}
		tr = rec
	}
	st := impl.NewState()
	w.apply(st)
	evm := gen.UpstreamEVM(c.Fork, st, tr, c.Eips)
	cfg, merge := impl.ChainConfig(c.Fork)
	rules := cfg.Rules(big.NewInt(0), merge, 0)
	to := u.Contracts[0]
	st.Prepare(rules, impl.Origin, impl.Coinbase, &to, ethvm.ActivePrecompiles(rules), nil)
	if rules.IsBerlin {
		st.AddAddressToAccessList(diffCaller)
	}
	input, _ := hex.DecodeString(c.Input)
	value := new(big.Int).SetUint64(c.Value)
	var ret []byte
	var left uint64
	var err error
	var addr common.Address
	caller := ethvm.AccountRef(diffCaller)
	res.Panic = impl.Guard(func() {
		switch c.Entry {
		case 0:
			ret, left, err = evm.Call(caller, to, input, c.Gas, value)
		case 1:
			ret, left, err = evm.CallCode(caller, to, input, c.Gas, value)
		case 2:
			parent := ethvm.NewContract(caller, caller, value, c.Gas)
			ret, left, err = evm.DelegateCall(parent, to, input, c.Gas)
		case 3:
			ret, left, err = evm.StaticCall(caller, to, input, c.Gas)
		case 4:
			ret, addr, left, err = evm.Create(caller, code0, c.Gas, value)
		default:
			ret, addr, left, err = evm.Create2(caller, code0, c.Gas, value, uint256.NewInt(7))
		}
	})
	res.Ret, res.Left = hex.EncodeToString(ret), left
	if err != nil {
		res.Err = normErr(err.Error())
	}
	if c.Entry >= 4 {
		res.Addr = addr.Hex()
	}
	finishResult(res, st, c.Fork, u)
	if rec != nil {
		for _, e := range rec.Events {
			res.Events = append(res.Events, evString(e.Kind, e.Op, e.Pc, e.Gas, e.Cost, e.Depth, e.Err, e.From, e.To, e.Create, e.Input, e.Value, e.Output, e.Used, e.Stack, len(e.Mem), e.RData))
		}
	}
	return res
}

// compare returns the list of observable differences (empty = the two executions agree).
func compareRuns(a, u *runResult, withEvents bool) []string {
	var d []string
	add := func(what string, x, y interface{}) {
		d = append(d, fmt.Sprintf("%s: artela=%v upstream=%v", what, x, y))
	}
	if a.Panic != u.Panic {
		add("panic", a.Panic, u.Panic)
	}
	if a.Ret != u.Ret {
		add("return data", a.Ret, u.Ret)
	}
	if a.Err != u.Err {
		add("error", a.Err, u.Err)
	}
	if a.Left != u.Left {
		add("leftover gas", a.Left, u.Left)
	}
	if a.Addr != u.Addr {
		add("created address", a.Addr, u.Addr)
	}
	if a.Root != u.Root {
		add("post-state root", a.Root, u.Root)
	}
	if a.Logs != u.Logs {
		add("logs", a.Logs, u.Logs)
	}
	if a.Refund != u.Refund {
		add("refund counter", a.Refund, u.Refund)
	}
	if strings.Join(a.Suicide, ",") != strings.Join(u.Suicide, ",") {
		add("self-destruct set", a.Suicide, u.Suicide)
	}
	if withEvents {
		n := len(a.Events)
		if len(u.Events) < n {
			n = len(u.Events)
		}
		for i := 0; i < n; i++ {
			if a.Events[i] != u.Events[i] {
				add(fmt.Sprintf("debug-tracer event %d", i), a.Events[i], u.Events[i])
				return d
			}
		}
		if len(a.Events) != len(u.Events) {
			add("number of debug-tracer events", len(a.Events), len(u.Events))
		}
	}
	return d
}

func cmdDiffRef(args []string) error {
	c := newCommon("diffref")
	mode := c.fs.String("mode", "all", "all|gas|events: what the run emphasises (all three always compare everything)")
	c.fs.Parse(args)
	_ = mode
	r := rng.New(c.seed)
	u := progen.DefaultUniverse()
	upForks := impl.Forks[:12]
	eipsets := [][]int{nil, nil, nil, nil, {3855}, {3860}, {2929}, {1884}, {2200}, {3198}, {1344}, {3529}, {2929, 3529}, {3855, 3860}}
	var cases []diffCase
	stats := map[string]int{}
	for i := 0; i < c.n; i++ {
		rr := r.Fork()
		fork := upForks[rr.Intn(len(upForks))]
		fi := impl.ForkIndex(fork)
		cs := diffCase{Idx: len(cases), Fork: fork, Entry: rr.Intn(6), JP: rr.Bool(), Tracer: true, Gas: 3_000_000, Codes: map[string]string{}}
		if rr.Intn(4) == 0 {
			cs.Eips = eipsets[rr.Intn(len(eipsets))]
		}
		if cs.Entry == 2 && fi < 1 {
			cs.Entry = 0
		}
		if cs.Entry == 3 && fi < 4 {
			cs.Entry = 0
		}
		if cs.Entry == 5 && fi < 5 {
			cs.Entry = 4
		}
		if (cs.Entry == 0 || cs.Entry == 1 || cs.Entry >= 4) && rr.Intn(3) == 0 {
			cs.Value = uint64(1 + rr.Intn(50))
		}
		cs.Input = hex.EncodeToString(rr.Bytes(rr.Intn(70)))
		w := &world{Code: map[common.Address][]byte{}, Storage: map[common.Address]map[common.Hash]common.Hash{},
			Balance: map[common.Address]*big.Int{}, Nonce: map[common.Address]uint64{}}
		opts := progen.Opts{Fork: fi, MaxSnips: 14}
		cs.Class = "valid"
		for k, a := range u.Contracts {
			var code []byte
			if rr.Intn(7) == 0 {
				code = progen.Malformed(rr, u, opts)
				cs.Class = "malformed"
			} else {
				code = progen.Program(rr, u, opts)
			}
			if k > 0 && rr.Intn(8) == 0 {
				code = nil // account without code
			}
			w.Code[a] = code
			cs.Codes[a.Hex()] = hex.EncodeToString(code)
			w.Balance[a] = big.NewInt(int64(rr.Intn(3)) * 1000)
			w.Storage[a] = map[common.Hash]common.Hash{}
			for s := 0; s < 4; s++ {
				if rr.Bool() {
					w.Storage[a][common.BigToHash(big.NewInt(int64(s)))] = common.BigToHash(big.NewInt(int64(1 + rr.Intn(3))))
				}
			}
		}
		w.Balance[u.EOA] = big.NewInt(12345)
		w.Balance[diffCaller] = big.NewInt(1_000_000)
		if rr.Intn(10) == 0 {
			w.Balance[diffCaller] = big.NewInt(3) // insufficient balance cases
		}
		w.Nonce[diffCaller] = uint64(rr.Intn(3))
		code0 := w.Code[u.Contracts[0]]
		if cs.Entry >= 4 { // creation: the program is the init code; the target address must not hold code
			code0 = progen.Program(rr, u, progen.Opts{Fork: fi, MaxSnips: 8})
			cs.Codes["init"] = hex.EncodeToString(code0)
		}
		// first run: ample gas, tracer on
		a := runArtela(&cs, w, u, code0)
		up := runUpstream(&cs, w, u, code0)
		cs.Steps = len(a.Gases)
		if a.NonStd {
			cs.Skipped = "uses a journal opcode or an Artela precompile address: not a standard program"
			stats["skipped-nonstandard"]++
			cases = append(cases, cs)
			continue
		}
		cs.Artela, cs.Up = a, up
		cs.Oracle = compareRuns(a, up, true)
		stats["fork:"+fork]++
		stats[fmt.Sprintf("entry:%d", cs.Entry)]++
		stats["class:"+cs.Class]++
		if a.Err != "" {
			e := a.Err
			if len(e) > 24 {
				e = e[:24]
			}
			stats["err:"+e]++
		} else {
			stats["err:none"]++
		}
		if len(cs.Oracle) == 0 && len(cases) > 200 {
			cs.Artela, cs.Up = nil, nil // the full observations are kept for the first cases and for every differing one
		}
		cases = append(cases, cs)
		if len(cs.Oracle) > 0 {
			continue
		}
		// gas-limit boundary re-runs (C02): one unit short of, exactly on, one above intermediate gas values
		if len(a.Gases) > 1 {
			nb := 2
			if c.tier == "thorough" {
				nb = 6
			}
			for k := 0; k < nb; k++ {
				g := a.Gases[rr.Intn(len(a.Gases))]
				used := cs.Gas - g // gas consumed before that step
				for _, lim := range []uint64{used - 1, used, used + 1} {
					if lim == 0 || lim > cs.Gas {
						continue
					}
					cc := cs
					cc.Idx = len(cases)
					cc.Gas = lim
					cc.Tracer = rr.Intn(3) != 0
					cc.Class = "gas-boundary"
					cc.Oracle = nil
					ga := runArtela(&cc, w, u, code0)
					gu := runUpstream(&cc, w, u, code0)
					cc.Artela, cc.Up = ga, gu
					cc.Steps = len(ga.Gases)
					cc.Oracle = compareRuns(ga, gu, cc.Tracer)
					stats["class:gas-boundary"]++
					if ga.Err == "out of gas" {
						stats["gas-boundary-oog"]++
					}
					if len(cc.Oracle) == 0 {
						cc.Artela, cc.Up = nil, nil
					}
					cases = append(cases, cc)
				}
			}
		}
	}
	nf := 0
	for _, cs := range cases {
		if len(cs.Oracle) > 0 {
			nf++
		}
	}
	stats["differences"] = nf
	if err := writeJSON(c.out, "cases.json", cases); err != nil {
		return err
	}
	return writeJSON(c.out, "stats.json", stats)
}
