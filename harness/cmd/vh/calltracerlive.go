package main

// calltracerlive — C19 on the streams the real EVM emits: generated scenarios (nested calls of every kind, creations,
// Aspects bound to join points and failing in every way) are executed with the recording logger, the real callTracer and
// the real flatCallTracer attached side by side; the recorded callbacks are the TR case for the Coq model and the
// tracers' GetResult is the observation.

import (
	"encoding/json"
	"fmt"
	"math/big"
	"strings"

	"verifharness/internal/impl"
	"verifharness/internal/items"
	"verifharness/internal/progen"
	"verifharness/internal/rng"

	"github.com/artela-network/artela-evm/tracers"
	_ "github.com/artela-network/artela-evm/tracers/native"
	"github.com/artela-network/artela-evm/vm"
	actypes "github.com/artela-network/aspect-core/types"
	"github.com/ethereum/go-ethereum/common"
	"google.golang.org/protobuf/proto"
)

func init() { commands["calltracerlive"] = cmdCallTracerLive }

// teeLogger forwards every callback to several loggers (Aspect callbacks to those that take them).
type teeLogger struct{ ls []vm.EVMLogger }

func (t *teeLogger) CaptureTxStart(g uint64) {
	for _, l := range t.ls {
		l.CaptureTxStart(g)
	}
}
func (t *teeLogger) CaptureTxEnd(g uint64) {
	for _, l := range t.ls {
		l.CaptureTxEnd(g)
	}
}
func (t *teeLogger) CaptureStart(env *vm.EVM, from, to common.Address, create bool, input []byte, gas uint64, value *big.Int) {
	for _, l := range t.ls {
		l.CaptureStart(env, from, to, create, input, gas, value)
	}
}
func (t *teeLogger) CaptureEnd(output []byte, gasUsed uint64, err error) {
	for _, l := range t.ls {
		l.CaptureEnd(output, gasUsed, err)
	}
}
func (t *teeLogger) CaptureEnter(typ vm.OpCode, from, to common.Address, input []byte, gas uint64, value *big.Int) {
	for _, l := range t.ls {
		l.CaptureEnter(typ, from, to, input, gas, value)
	}
}
func (t *teeLogger) CaptureExit(output []byte, gasUsed uint64, err error) {
	for _, l := range t.ls {
		l.CaptureExit(output, gasUsed, err)
	}
}
func (t *teeLogger) CaptureState(pc uint64, op vm.OpCode, gas, cost uint64, scope *vm.ScopeContext, rData []byte, depth int, err error) {
	for _, l := range t.ls {
		l.CaptureState(pc, op, gas, cost, scope, rData, depth, err)
	}
}
func (t *teeLogger) CaptureFault(pc uint64, op vm.OpCode, gas, cost uint64, scope *vm.ScopeContext, depth int, err error) {
	for _, l := range t.ls {
		l.CaptureFault(pc, op, gas, cost, scope, depth, err)
	}
}
func (t *teeLogger) CaptureAspectEnter(jp actypes.JoinPointRunType, from, to, aspectId common.Address, input []byte, gas uint64, value *big.Int, execCtx proto.Message) {
	for _, l := range t.ls {
		if a, ok := l.(actypes.AspectLogger); ok {
			a.CaptureAspectEnter(jp, from, to, aspectId, input, gas, value, execCtx)
		}
	}
}
func (t *teeLogger) CaptureAspectExit(jp actypes.JoinPointRunType, result *actypes.AspectExecutionResult) {
	for _, l := range t.ls {
		if a, ok := l.(actypes.AspectLogger); ok {
			a.CaptureAspectExit(jp, result)
		}
	}
}

// extra loggers runScenario attaches next to its recorder (only with the debug tracer and the Aspect logger on)
var teeTracers []vm.EVMLogger

func liveEvents(l *items.L, evs []impl.Event) int {
	n := 0
	optE := func(has bool, s string) {
		l.Open()
		if has {
			l.S(s)
		}
		l.Close()
	}
	optV := func(v *big.Int) {
		l.Open()
		if v != nil {
			l.Big(v)
		}
		l.Close()
	}
	l.Open()
	for i := range evs {
		e := &evs[i]
		switch e.Kind {
		case "start":
			l.Open().N(2).Big(addrN(e.From)).Big(addrN(e.To)).Bool(e.Create).B(e.Input).N(e.Gas).Big(bigOr0(e.Value)).Close()
		case "end":
			l.Open().N(3).B(e.Output).N(e.Used)
			optE(e.HasErr, e.Err)
			l.Close()
		case "enter":
			l.Open().N(4).N(uint64(e.Op)).Big(addrN(e.From)).Big(addrN(e.To)).B(e.Input).N(e.Gas)
			optV(e.Value)
			l.Close()
		case "exit":
			l.Open().N(5).B(e.Output).N(e.Used)
			optE(e.HasErr, e.Err)
			l.Close()
		case "aspenter":
			l.Open().N(6).N(uint64(e.JP)).Big(addrN(e.From)).Big(addrN(e.To)).Big(addrN(e.Aspect)).B(e.Input).N(e.Gas)
			optV(e.Value)
			l.Close()
		case "aspexit":
			l.Open().N(7).N(uint64(e.JP)).N(e.ResGas).B(e.Output)
			optE(e.HasErr, e.Err)
			l.Close()
		case "state":
			// a LOGn instruction about to execute: what CaptureState shows a tracer that collects logs
			if e.HasErr || e.Op < 0xa0 || e.Op > 0xa4 {
				continue
			}
			nt := int(e.Op - 0xa0)
			n := len(e.Stack)
			if n < 2+nt || !e.Stack[n-1].IsUint64() || !e.Stack[n-2].IsUint64() {
				continue
			}
			l.Open().N(8).Big(addrN(e.Self)).Open()
			for i := 0; i < nt; i++ {
				l.Big(e.Stack[n-3-i].ToBig())
			}
			l.Close().B(zext(e.Mem, e.Stack[n-1].Uint64(), e.Stack[n-2].Uint64())).Close()
		default:
			continue
		}
		n++
	}
	l.Close()
	return n
}

func cmdCallTracerLive(args []string) error {
	c := newCommon("calltracerlive")
	c.fs.Parse(args)
	r := rng.New(c.seed)
	u := progen.DefaultUniverse()
	u.Precomp = []common.Address{common.BigToAddress(big.NewInt(4)), common.BigToAddress(big.NewInt(0x64)), common.BigToAddress(big.NewInt(0x66))}
	forks := []string{"Berlin", "London", "Shanghai", "Cancun"}
	var cases []ctCase
	stats := map[string]int{}
	var sb strings.Builder
	for i := 0; i < c.n; i++ {
		rr := r.Fork()
		cs, w, code0 := genExecCase(rr, u, forks)
		cs.Debug, cs.AspLog = true, true
		onlyTop, inclPre, withLog := rr.Intn(5) == 0, rr.Intn(2) == 0, rr.Intn(3) != 0
		ctCfg := fmt.Sprintf(`{"onlyTopCall":%v,"withLog":%v}`, onlyTop, withLog)
		flCfg := fmt.Sprintf(`{"includePrecompiles":%v,"convertParityErrors":false}`, inclPre)
		ct, err1 := tracers.DefaultDirectory.New("callTracer", &tracers.Context{}, json.RawMessage(ctCfg))
		fl, err2 := tracers.DefaultDirectory.New("flatCallTracer", &tracers.Context{}, json.RawMessage(flCfg))
		if err1 != nil || err2 != nil {
			return fmt.Errorf("tracer construction: %v %v", err1, err2)
		}
		teeTracers = []vm.EVMLogger{ct, fl}
		run := runScenario(&cs, w, u, code0, true)
		teeTracers = nil
		if run.pan != "" {
			cc := ctCase{Idx: len(cases), Stream: "live", Tracer: "callTracer+flatCallTracer", Config: ctCfg + flCfg, Result: "panic",
				Oracle: []string{"C19: a call tracer panicked during a real execution: " + firstLine(run.pan)}}
			cases = append(cases, cc)
			sb.WriteString("TR [ ]\n")
			continue
		}
		if len(run.rec.Events) > 4000 {
			stats["skipped-too-long"]++
			continue
		}
		for kind, t := range []tracers.Tracer{ct, fl} {
			l := items.New("TR").N(uint64(kind))
			cc := ctCase{Idx: len(cases), Stream: "live"}
			if kind == 0 {
				cc.Tracer, cc.Config = "callTracer", ctCfg
				l.Bool(onlyTop).Bool(withLog)
			} else {
				cc.Tracer, cc.Config = "flatCallTracer", flCfg
				l.Bool(inclPre).N(0)
			}
			cc.Events = liveEvents(l, run.rec.Events)
			for _, e := range run.rec.Events {
				switch e.Kind {
				case "enter", "start":
					cc.Frames++
				case "aspenter":
					cc.Aspects++
				}
			}
			var raw json.RawMessage
			var rerr error
			pan := impl.Guard(func() { raw, rerr = t.GetResult() })
			switch {
			case pan != "":
				cc.Result = "panic"
				cc.Oracle = append(cc.Oracle, "C19: GetResult panicked: "+firstLine(pan))
				l.Res(2, []byte(firstLine(pan)))
			case rerr != nil:
				cc.Result = "error"
				l.Res(1, []byte(rerr.Error()))
			case kind == 0:
				cc.Result = "ok"
				var f map[string]interface{}
				if err := json.Unmarshal(raw, &f); err != nil {
					return err
				}
				l.Open().N(0)
				if err := frameItem(l, f); err != nil {
					cc.Oracle = append(cc.Oracle, "C19: result not understood: "+err.Error())
				}
				l.Close()
			default:
				cc.Result = "ok"
				var fls []interface{}
				if err := json.Unmarshal(raw, &fls); err != nil {
					return err
				}
				l.Open().N(0).Open()
				for _, e := range fls {
					if err := flatItem(l, e.(map[string]interface{})); err != nil {
						cc.Oracle = append(cc.Oracle, "C19: result not understood: "+err.Error())
					}
				}
				l.Close().Close()
				// the property's own wording on the flat result: unique, prefix-closed addresses; subtraces = emitted children
				seen, kids := map[string]int{}, map[string]int{}
				for _, e := range fls {
					ta, _ := e.(map[string]interface{})["traceAddress"].([]interface{})
					seen[addrKey(ta)]++
					if len(ta) > 0 {
						kids[addrKey(ta[:len(ta)-1])]++
					}
				}
				for _, e := range fls {
					f := e.(map[string]interface{})
					ta, _ := f["traceAddress"].([]interface{})
					k := addrKey(ta)
					if seen[k] > 1 {
						cc.Oracle = append(cc.Oracle, fmt.Sprintf("C19: trace address [%s] is used by %d frames", k, seen[k]))
					}
					if len(ta) > 0 && seen[addrKey(ta[:len(ta)-1])] == 0 {
						cc.Oracle = append(cc.Oracle, fmt.Sprintf("C19: trace address [%s] has no parent frame", k))
					}
					if st := int(f["subtraces"].(float64)); st != kids[k] {
						cc.Oracle = append(cc.Oracle, fmt.Sprintf("C19: frame [%s] says subtraces=%d but %d children are emitted", k, st, kids[k]))
					}
				}
				if len(cc.Oracle) > 4 {
					cc.Oracle = cc.Oracle[:4]
				}
			}
			cc.Line = l.String()
			sb.WriteString(cc.Line + "\n")
			stats["tracer:"+cc.Tracer]++
			stats["result:"+cc.Result]++
			if cc.Aspects > 0 {
				stats["with Aspect executions"]++
			}
			cases = append(cases, cc)
		}
	}
	if err := writeFile(c.out, "cases.txt", sb.String()); err != nil {
		return err
	}
	if err := writeJSON(c.out, "cases.json", cases); err != nil {
		return err
	}
	return writeJSON(c.out, "stats.json", stats)
}
