package main

import (
	"crypto/sha256"
	"fmt"

	"verifharness/internal/impl"
	"verifharness/internal/progen"
	"verifharness/internal/rng"

	"github.com/artela-network/artela-evm/vm"
	"github.com/ethereum/go-ethereum/common"
	"math/big"
)

func init() { commands["determinism"] = cmdDeterminism }

type detCase struct {
	Idx     int      `json:"idx"`
	Kind    string   `json:"kind"`
	Seed    uint64   `json:"seed"`
	Repeats int      `json:"repeats"`
	Digests []string `json:"distinct_serialisations"`
	Size    int      `json:"serialisation_bytes"`
	Oracle  []string `json:"oracle_fail,omitempty"`
}

func short(s string) string { return fmt.Sprintf("%x", sha256.Sum256([]byte(s)))[:16] }

// Equal executions give byte-identical results and tracer views: the same history / transaction is
// replayed R times in fresh instances, interleaved with unrelated work, and every query answer — in
// the order the API returns it — is serialised and compared.
func cmdDeterminism(args []string) error {
	c := newCommon("determinism")
	c.fs.Parse(args)
	r := rng.New(c.seed)
	R := 20
	if c.tier == "thorough" {
		R = 200
	}
	var cases []detCase
	stats := map[string]int{}
	u := progen.DefaultUniverse()
	u.Precomp = []common.Address{common.BigToAddress(big.NewInt(4)), common.BigToAddress(big.NewInt(0x64)), common.BigToAddress(big.NewInt(0x66))}
	forks := []string{"Byzantium", "Istanbul", "Berlin", "London", "Shanghai", "Cancun"}
	for i := 0; i < c.n; i++ {
		seed := r.U64()
		other := r.U64()
		if i%3 != 0 {
			// tracer API history: registrations with several children under one parent, changes, calls, all queries
			cs := detCase{Idx: len(cases), Kind: "tracer-history", Seed: seed, Repeats: R}
			seen := map[string]bool{}
			n := 10 + int(seed%50)
			for k := 0; k < R; k++ {
				h := genHistory(rng.New(seed), n, false)
				seen[h.Line+"|"+h.ChildrenOrder] = true
				cs.Size = len(h.Line)
				if k%4 == 0 {
					genHistory(rng.New(other+uint64(k)), 20, false) // unrelated work in between
				}
			}
			for l := range seen {
				cs.Digests = append(cs.Digests, short(l))
			}
			if len(seen) != 1 {
				cs.Oracle = append(cs.Oracle, fmt.Sprintf("C16: %d different serialisations of the tracer's answers over %d replays of one history (order of returned lists?)", len(seen), R))
			}
			stats["tracer-history"]++
			cases = append(cases, cs)
			continue
		}
		// whole transaction
		cs := detCase{Idx: len(cases), Kind: "transaction", Seed: seed, Repeats: 4}
		seen := map[string]bool{}
		for k := 0; k < 4; k++ {
			ec, w, code0 := genExecCase(rng.New(seed), u, forks)
			run := runScenario(&ec, w, u, code0, true)
			if run.pan != "" {
				cs.Oracle = append(cs.Oracle, "C16: panic "+run.pan)
				break
			}
			if len(run.rec.Events) > 2500 {
				break
			}
			line, skipped := buildExecLine(&ec, run, w, u, code0, true)
			if skipped != "" {
				break
			}
			seen[line] = true
			cs.Size = len(line)
			// a second, untouched EVM instance must not see anything of this execution
			env2 := impl.NewEnv(impl.Opts{Fork: ec.Fork})
			if env2.EVM.Tracer().CallTree().Root() != nil || env2.EVM.Tracer().StateChanges().Balance(exCaller) != nil {
				cs.Oracle = append(cs.Oracle, "C16: a fresh EVM instance sees calls or journal entries of another instance")
			}
			if k%2 == 0 {
				oc, ow, ocode := genExecCase(rng.New(other), u, forks)
				runScenario(&oc, ow, u, ocode, false)
			}
		}
		for l := range seen {
			cs.Digests = append(cs.Digests, short(l))
		}
		if len(seen) > 1 {
			cs.Oracle = append(cs.Oracle, fmt.Sprintf("C16: %d different serialisations (result, events, call tree, journal, world) over 4 runs of one transaction on equal pre-state", len(seen)))
		}
		if len(seen) >= 1 {
			stats["transaction"]++
			cases = append(cases, cs)
		}
	}
	_ = vm.ErrOutOfGas
	if err := writeJSON(c.out, "cases.json", cases); err != nil {
		return err
	}
	return writeJSON(c.out, "stats.json", stats)
}
