package main

import (
	"context"
	"crypto/sha256"
	"flag"
	"fmt"
	"os"
	"os/exec"
	"strings"
	"sync"

	"verifharness/internal/impl"
	"verifharness/internal/progen"
	"verifharness/internal/rng"

	"github.com/artela-network/artela-evm/vm"
	"github.com/ethereum/go-ethereum/common"
	"math/big"
)

func init() {
	commands["determinism"] = cmdDeterminism
	commands["determinism-one"] = cmdDeterminismOne
}

type detCase struct {
	Idx     int      `json:"idx"`
	Kind    string   `json:"kind"`
	Seed    uint64   `json:"seed"`
	Repeats int      `json:"repeats"`
	Digests []string `json:"distinct_serialisations"`
	Size    int      `json:"serialisation_bytes"`
	Fresh   string   `json:"fresh_process_run,omitempty"`
	Oracle  []string `json:"oracle_fail,omitempty"`
}

func short(s string) string { return fmt.Sprintf("%x", sha256.Sum256([]byte(s)))[:16] }

// Equal executions give byte-identical results and tracer views: the same history / transaction is
// replayed R times in fresh instances, interleaved with unrelated work, and every query answer — in
// the order the API returns it — is serialised and compared.
// detUniverse is the universe of the whole-transaction cases (shared by the parent and the fresh child processes).
func detUniverse() (progen.Universe, []string) {
	u := progen.DefaultUniverse()
	u.Precomp = []common.Address{common.BigToAddress(big.NewInt(4)), common.BigToAddress(big.NewInt(0x64)), common.BigToAddress(big.NewInt(0x66))}
	return u, []string{"Byzantium", "Istanbul", "Berlin", "London", "Shanghai", "Cancun"}
}

// detTransaction runs the transaction drawn from seed once and returns the digest of its serialisation
// ("" when the case is skipped, "panic:..." on a Go panic).
func detTransaction(seed uint64) (digest string, size int, pan string) {
	u, forks := detUniverse()
	ec, w, code0 := genExecCase(rng.New(seed), u, forks)
	run := runScenario(&ec, w, u, code0, true)
	if run.pan != "" {
		return "", 0, run.pan
	}
	if len(run.rec.Events) > 2500 {
		return "", 0, ""
	}
	line, skipped := buildExecLine(&ec, run, w, u, code0, true)
	if skipped != "" {
		return "", 0, ""
	}
	return short(line), len(line), ""
}

// detJournal runs the single-frame journal program drawn from seed once (registrations, value and reference change
// journals on short and long strings, hostile operands) and returns the digest of everything observed.
func detJournal(seed uint64) (digest string, size int, pan string) {
	forks := []string{"Byzantium", "Istanbul", "Berlin", "London", "Shanghai", "Cancun"}
	r := rng.New(seed)
	cs := genJournalCase(r, forks[int(seed%uint64(len(forks)))])
	if strings.HasPrefix(cs.Result, "panic") {
		return "", 0, cs.Result
	}
	return short(cs.Line), len(cs.Line), ""
}

// determinism-one: the transaction (or journal program) of one seed as the FIRST thing this process executes; prints its digest.
func cmdDeterminismOne(args []string) error {
	fs := flag.NewFlagSet("determinism-one", flag.ExitOnError)
	seed := fs.Uint64("seed", 0, "transaction seed")
	kind := fs.String("kind", "transaction", "transaction|journal")
	fs.Parse(args)
	run := detTransaction
	if *kind == "journal" {
		run = detJournal
	}
	d, _, pan := run(*seed)
	if pan != "" {
		fmt.Println("panic:" + pan)
		return nil
	}
	fmt.Println("digest:" + d)
	return nil
}

// warmUp makes sure this process has already run unrelated executions that reach every Artela precompile with a
// call context before the compared transactions start (package-level state left behind by them must not matter).
func warmUp() {
	installHost()
	payload := encodeKV([]byte("warm"), []byte("up"))
	for _, a := range []int64{0x64, 0x65, 0x66} {
		env := impl.NewEnv(impl.Opts{Fork: "Cancun", JP: true})
		to := common.BigToAddress(big.NewInt(a))
		env.Prepare(&to)
		impl.Guard(func() {
			env.EVM.Call(context.Background(), vm.AccountRef(common.HexToAddress("0x00000000000000000000000000000000000d00d1")), to, payload, 100000, big.NewInt(0))
		})
	}
}

func cmdDeterminism(args []string) error {
	c := newCommon("determinism")
	c.fs.Parse(args)
	warmUp()
	self, _ := os.Executable()
	var wg sync.WaitGroup
	sem := make(chan struct{}, 12)
	var mu sync.Mutex
	childOut := map[uint64]string{}
	r := rng.New(c.seed)
	R := 20
	if c.tier == "thorough" {
		R = 200
	}
	var cases []detCase
	stats := map[string]int{}
	u, forks := detUniverse()
	for i := 0; i < c.n; i++ {
		seed := r.U64()
		other := r.U64()
		if i%6 == 1 {
			// single-frame journal program: the journal helpers work on shared package-level 256-bit values
			cs := detCase{Idx: len(cases), Kind: "journal-program", Seed: seed, Repeats: 4}
			wg.Add(1)
			go func(seed uint64) {
				defer wg.Done()
				sem <- struct{}{}
				defer func() { <-sem }()
				out, err := exec.Command(self, "determinism-one", "--kind", "journal", "--seed", fmt.Sprint(seed)).Output()
				res := strings.TrimSpace(string(out))
				if err != nil {
					res = "child failed: " + err.Error()
				}
				mu.Lock()
				childOut[seed] = res
				mu.Unlock()
			}(seed)
			seen := map[string]bool{}
			for k := 0; k < 4; k++ {
				d, size, pan := detJournal(seed)
				if pan != "" {
					cs.Oracle = append(cs.Oracle, "C16: "+pan)
					break
				}
				seen[d] = true
				cs.Size = size
				if k%2 == 0 {
					detJournal(other + uint64(k)) // unrelated journal program in between
				}
			}
			for l := range seen {
				cs.Digests = append(cs.Digests, l)
			}
			if len(seen) > 1 {
				cs.Oracle = append(cs.Oracle, fmt.Sprintf("C16: %d different serialisations (results, memory, recorded journal, queries) over 4 runs of one journal program on equal pre-state", len(seen)))
			}
			stats["journal-program"]++
			cases = append(cases, cs)
			continue
		}
		if i%3 != 0 {
			// tracer API history: registrations with several children under one parent, changes, calls, all queries
			cs := detCase{Idx: len(cases), Kind: "tracer-history", Seed: seed, Repeats: R}
			seen := map[string]bool{}
			n := 10 + int(seed%50)
			for k := 0; k < R; k++ {
				h := genHistory(rng.New(seed), n, false)
				seen[h.Line+"|"+h.ChildrenOrder] = true
				cs.Size = len(h.Line)
				if k%4 == 0 {
					genHistory(rng.New(other+uint64(k)), 20, false) // unrelated work in between
				}
			}
			for l := range seen {
				cs.Digests = append(cs.Digests, short(l))
			}
			if len(seen) != 1 {
				cs.Oracle = append(cs.Oracle, fmt.Sprintf("C16: %d different serialisations of the tracer's answers over %d replays of one history (order of returned lists?)", len(seen), R))
			}
			stats["tracer-history"]++
			cases = append(cases, cs)
			continue
		}
		// whole transaction
		cs := detCase{Idx: len(cases), Kind: "transaction", Seed: seed, Repeats: 4}
		seen := map[string]bool{}
		// the same transaction as the first execution of a fresh process (compared below)
		wg.Add(1)
		go func(seed uint64) {
			defer wg.Done()
			sem <- struct{}{}
			defer func() { <-sem }()
			out, err := exec.Command(self, "determinism-one", "--kind", "transaction", "--seed", fmt.Sprint(seed)).Output()
			res := strings.TrimSpace(string(out))
			if err != nil {
				res = "child failed: " + err.Error()
			}
			mu.Lock()
			childOut[seed] = res
			mu.Unlock()
		}(seed)
		for k := 0; k < 4; k++ {
			ec, w, code0 := genExecCase(rng.New(seed), u, forks)
			run := runScenario(&ec, w, u, code0, true)
			if run.pan != "" {
				cs.Oracle = append(cs.Oracle, "C16: panic "+run.pan)
				break
			}
			if len(run.rec.Events) > 2500 {
				break
			}
			line, skipped := buildExecLine(&ec, run, w, u, code0, true)
			if skipped != "" {
				break
			}
			seen[short(line)] = true
			cs.Size = len(line)
			// a second, untouched EVM instance must not see anything of this execution
			env2 := impl.NewEnv(impl.Opts{Fork: ec.Fork})
			if env2.EVM.Tracer().CallTree().Root() != nil || env2.EVM.Tracer().StateChanges().Balance(exCaller) != nil {
				cs.Oracle = append(cs.Oracle, "C16: a fresh EVM instance sees calls or journal entries of another instance")
			}
			if k%2 == 0 {
				oc, ow, ocode := genExecCase(rng.New(other), u, forks)
				runScenario(&oc, ow, u, ocode, false)
			}
		}
		for l := range seen {
			cs.Digests = append(cs.Digests, l)
		}
		if len(seen) > 1 {
			cs.Oracle = append(cs.Oracle, fmt.Sprintf("C16: %d different serialisations (result, events, call tree, journal, world) over 4 runs of one transaction on equal pre-state", len(seen)))
		}
		if len(seen) >= 1 {
			stats["transaction"]++
			cases = append(cases, cs)
		}
	}
	wg.Wait()
	for i := range cases {
		cs := &cases[i]
		if (cs.Kind != "transaction" && cs.Kind != "journal-program") || len(cs.Digests) != 1 {
			continue
		}
		kindFlag := "transaction"
		if cs.Kind == "journal-program" {
			kindFlag = "journal"
		}
		out := childOut[cs.Seed]
		cs.Fresh = out
		stats["fresh-process-runs"]++
		if out != "digest:"+cs.Digests[0] {
			cs.Oracle = append(cs.Oracle, fmt.Sprintf("C16: the execution of seed %d gives %q as the first execution of a fresh process but digest %s after unrelated executions in this process (state shared between EVM instances); replay: vh determinism-one --kind %s --seed %d", cs.Seed, out, cs.Digests[0], kindFlag, cs.Seed))
		}
	}
	_ = vm.ErrOutOfGas
	if err := writeJSON(c.out, "cases.json", cases); err != nil {
		return err
	}
	return writeJSON(c.out, "stats.json", stats)
}
