// Package items renders correspondence cases in the line protocol understood by
// coq/Extract/driver.ml (and convertible to a Coq cases file by the check driver):
//
//	<component> <item>*     item ::= n:<hex> | b:<hex> | [ item* ]
package items

import (
	"encoding/hex"
	"fmt"
	"math/big"
	"strings"
)

type L struct{ toks []string }

func New(component string) *L { return &L{toks: []string{component}} }

func (l *L) N(v uint64) *L { l.toks = append(l.toks, fmt.Sprintf("n:%x", v)); return l }

func (l *L) Big(v *big.Int) *L { l.toks = append(l.toks, "n:"+v.Text(16)); return l }

func (l *L) Bool(b bool) *L {
	if b {
		return l.N(1)
	}
	return l.N(0)
}

func (l *L) B(b []byte) *L { l.toks = append(l.toks, "b:"+hex.EncodeToString(b)); return l }

// S is an ASCII string sent as bytes.
func (l *L) S(s string) *L { return l.B([]byte(s)) }

func (l *L) Open() *L  { l.toks = append(l.toks, "["); return l }
func (l *L) Close() *L { l.toks = append(l.toks, "]"); return l }

// Res writes an observed Go result: kind 0 ok (payload = return bytes), 1 error (payload = text), 2 panic.
func (l *L) Res(kind int, payload []byte) *L {
	return l.Open().N(uint64(kind)).B(payload).Close()
}

func (l *L) String() string { return strings.Join(l.toks, " ") }
