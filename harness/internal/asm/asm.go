// Package asm is a tiny EVM bytecode builder.
package asm

import (
	"math/big"

	"github.com/ethereum/go-ethereum/common"
)

type B struct{ Code []byte }

func New() *B { return &B{} }

func (b *B) Op(ops ...byte) *B { b.Code = append(b.Code, ops...); return b }

// Push pushes v with the shortest PUSHn (PUSH1 0 for zero).
func (b *B) Push(v uint64) *B { return b.PushBig(new(big.Int).SetUint64(v)) }

func (b *B) PushBig(v *big.Int) *B {
	bs := v.Bytes()
	if len(bs) == 0 {
		bs = []byte{0}
	}
	if len(bs) > 32 {
		bs = bs[len(bs)-32:]
	}
	b.Code = append(b.Code, byte(0x5f+len(bs)))
	b.Code = append(b.Code, bs...)
	return b
}

// PushBytes pushes up to 32 raw bytes with PUSHn where n = len(bs).
func (b *B) PushBytes(bs []byte) *B {
	if len(bs) == 0 {
		return b.Push(0)
	}
	b.Code = append(b.Code, byte(0x5f+len(bs)))
	b.Code = append(b.Code, bs...)
	return b
}

func (b *B) PushAddr(a common.Address) *B { return b.PushBytes(a.Bytes()) }

// Push2Fixed pushes a 2-byte value with PUSH2 (for jump targets patched later).
func (b *B) Push2Fixed(v int) *B {
	b.Code = append(b.Code, 0x61, byte(v>>8), byte(v))
	return b
}

func (b *B) Len() int { return len(b.Code) }

func (b *B) Bytes() []byte { return b.Code }

// MstoreBytes writes data into memory at offset off using MSTORE of 32-byte chunks
// (the tail chunk is right-padded, so memory beyond the data is zero up to the word end).
func (b *B) MstoreBytes(off uint64, data []byte) *B {
	for i := 0; i < len(data); i += 32 {
		end := i + 32
		chunk := make([]byte, 32)
		if end > len(data) {
			end = len(data)
		}
		copy(chunk, data[i:end])
		b.PushBytes(chunk).Push(off + uint64(i)).Op(MSTORE)
	}
	return b
}

const (
	STOP           = 0x00
	ADD            = 0x01
	MUL            = 0x02
	SUB            = 0x03
	LT             = 0x10
	GT             = 0x11
	EQ             = 0x14
	ISZERO         = 0x15
	KECCAK256      = 0x20
	ADDRESS        = 0x30
	BALANCE        = 0x31
	CALLER         = 0x33
	CALLVALUE      = 0x34
	CALLDATALOAD   = 0x35
	CALLDATASIZE   = 0x36
	CALLDATACOPY   = 0x37
	CODECOPY       = 0x39
	RETURNDATASIZE = 0x3d
	RETURNDATACOPY = 0x3e
	POP            = 0x50
	MLOAD          = 0x51
	MSTORE         = 0x52
	MSTORE8        = 0x53
	SLOAD          = 0x54
	SSTORE         = 0x55
	JUMP           = 0x56
	JUMPI          = 0x57
	PC             = 0x58
	MSIZE          = 0x59
	GAS            = 0x5a
	JUMPDEST       = 0x5b
	TLOAD          = 0x5c
	TSTORE         = 0x5d
	MCOPY          = 0x5e
	PUSH0          = 0x5f
	DUP1           = 0x80
	DUP2           = 0x81
	SWAP1          = 0x90
	LOG0           = 0xa0
	LOG1           = 0xa1
	CREATE         = 0xf0
	CALL           = 0xf1
	CALLCODE       = 0xf2
	RETURN         = 0xf3
	DELEGATECALL   = 0xf4
	CREATE2        = 0xf5
	STATICCALL     = 0xfa
	REVERT         = 0xfd
	INVALID        = 0xfe
	SELFDESTRUCT   = 0xff
)
