// Package impl drives the real artela-evm packages.
package impl

import (
	"context"
	"math/big"
	"sync"

	"github.com/artela-network/artela-evm/core"
	"github.com/artela-network/artela-evm/vm"
	"github.com/artela-network/aspect-core/djpm"
	actypes "github.com/artela-network/aspect-core/types"
	"github.com/ethereum/go-ethereum/common"
	"github.com/ethereum/go-ethereum/core/rawdb"
	"github.com/ethereum/go-ethereum/core/state"
	ethtypes "github.com/ethereum/go-ethereum/core/types"
	"github.com/ethereum/go-ethereum/params"
)

// Forks in chronological order.
var Forks = []string{"Frontier", "Homestead", "Tangerine", "Spurious", "Byzantium", "Constantinople",
	"Petersburg", "Istanbul", "Berlin", "London", "Merge", "Shanghai", "Cancun"}

func ForkIndex(name string) int {
	for i, f := range Forks {
		if f == name {
			return i
		}
	}
	panic("unknown fork " + name)
}

func u64p(v uint64) *uint64 { return &v }

// ChainConfig returns a config in which exactly the forks up to `fork` are active at block 0 / time 0.
func ChainConfig(fork string) (*params.ChainConfig, bool) {
	n := ForkIndex(fork)
	z := func(i int) *big.Int {
		if n >= i {
			return new(big.Int)
		}
		return nil
	}
	cfg := &params.ChainConfig{
		ChainID:             big.NewInt(1),
		HomesteadBlock:      z(1),
		EIP150Block:         z(2),
		EIP155Block:         z(3),
		EIP158Block:         z(3),
		ByzantiumBlock:      z(4),
		ConstantinopleBlock: z(5),
		PetersburgBlock:     z(6),
		IstanbulBlock:       z(7),
		BerlinBlock:         z(8),
		LondonBlock:         z(9),
	}
	if n == 5 {
		// Constantinople WITHOUT Petersburg (EIP-1283 net gas metering live): go-ethereum treats a nil PetersburgBlock
		// as "Petersburg together with Constantinople", so it has to be scheduled explicitly, far in the future
		cfg.PetersburgBlock = new(big.Int).Lsh(big.NewInt(1), 40)
	}
	merge := n >= 10
	if n >= 11 {
		cfg.ShanghaiTime = u64p(0)
	}
	if n >= 12 {
		cfg.CancunTime = u64p(0)
	}
	return cfg, merge
}

// Env is one EVM instance over a fresh in-memory state.
type Env struct {
	Fork   string
	Cfg    *params.ChainConfig
	Rules  params.Rules
	State  *state.StateDB
	EVM    *vm.EVM
	Origin common.Address
}

type Opts struct {
	Fork      string
	Tracer    vm.EVMLogger
	ExtraEips []int
	JP        bool // join points enabled (IsExecuteJP)
	Transfer  vm.TransferFunc
	GasPrice  *big.Int
}

// BlockNumber of every execution (all forks are scheduled at block 0): BLOCKHASH has 256 ancestors to serve
const BlockNumber = 300

var Origin = common.HexToAddress("0x00000000000000000000000000000000000a11ce")
var Coinbase = common.HexToAddress("0x000000000000000000000000000000000000c01b")

func NewState() *state.StateDB {
	st, err := state.New(ethtypes.EmptyRootHash, state.NewDatabase(rawdb.NewMemoryDatabase()), nil)
	if err != nil {
		panic(err)
	}
	return st
}

func BlockContext(merge bool, transfer vm.TransferFunc) vm.BlockContext {
	if transfer == nil {
		transfer = core.Transfer
	}
	bc := vm.BlockContext{
		CanTransfer: core.CanTransfer,
		Transfer:    transfer,
		GetHash:     func(n uint64) common.Hash { return common.BigToHash(new(big.Int).SetUint64(n + 0x1000)) },
		Coinbase:    Coinbase,
		BlockNumber: big.NewInt(BlockNumber),
		Time:        0,
		Difficulty:  big.NewInt(0x20000),
		GasLimit:    30_000_000,
		BaseFee:     big.NewInt(7),
	}
	if merge {
		r := common.HexToHash("0x1234567890abcdef1234567890abcdef1234567890abcdef1234567890abcdef")
		bc.Random = &r
		bc.Difficulty = big.NewInt(0)
	}
	return bc
}

func NewEnv(o Opts) *Env {
	InitAspects()
	cfg, merge := ChainConfig(o.Fork)
	st := NewState()
	gp := o.GasPrice
	if gp == nil {
		gp = big.NewInt(10)
	}
	bc := BlockContext(merge, o.Transfer)
	evm := vm.NewEVM(bc, vm.TxContext{Origin: Origin, GasPrice: gp}, st, cfg,
		vm.Config{Tracer: o.Tracer, ExtraEips: o.ExtraEips})
	evm.IsExecuteJP = o.JP
	rules := cfg.Rules(bc.BlockNumber, merge, bc.Time)
	return &Env{Fork: o.Fork, Cfg: cfg, Rules: rules, State: st, EVM: evm, Origin: Origin}
}

// Prepare resets access list + transient storage like a transaction start.
func (e *Env) Prepare(to *common.Address) {
	e.State.Prepare(e.Rules, e.Origin, Coinbase, to, vm.ActivePrecompiles(e.Rules), nil)
}

func (e *Env) SetCode(a common.Address, code []byte) {
	e.State.CreateAccount(a)
	e.State.SetCode(a, code)
}

var initOnce sync.Once

// Provider is the process-wide fake Aspect provider (djpm has one global instance).
var Provider = &FakeProvider{}

func InitAspects() {
	initOnce.Do(func() {
		actypes.IsCommit = func(ctx context.Context) bool { return true }
		actypes.InitRuntimePool(context.Background(), actypes.NoOpsLogger{}, 16, 16)
		djpm.NewAspect(Provider, actypes.NoOpsLogger{})
	})
}

// Guard runs f and converts a Go panic into a string.
func Guard(f func()) (panicked string) {
	defer func() {
		if r := recover(); r != nil {
			switch x := r.(type) {
			case error:
				panicked = x.Error()
			case string:
				panicked = x
			default:
				panicked = "panic"
			}
			if panicked == "" {
				panicked = "panic"
			}
		}
	}()
	f()
	return ""
}
