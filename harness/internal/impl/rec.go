package impl

import (
	"math/big"

	"github.com/artela-network/artela-evm/vm"
	actypes "github.com/artela-network/aspect-core/types"
	"github.com/ethereum/go-ethereum/common"
	"github.com/holiman/uint256"
	"google.golang.org/protobuf/proto"
)

// Event is one debug-tracer (or Aspect-logger) callback with copies of everything it was given.
type Event struct {
	Kind        string // start end enter exit state fault aspenter aspexit txstart txend
	Op          byte
	Pc          uint64
	Gas         uint64
	Cost        uint64
	Depth       int
	Err         string
	HasErr      bool
	CGas        uint64 // scope.Contract.Gas at the time of the callback
	Digest      string // world digest before this step (set by an OnState hook)
	JVal        []byte // at a value-journal step (0xe6) with well-formed operands: the packed field of the slot's current word
	HasJVal     bool
	Digest2     string // at a CREATE/CREATE2 step and at the next step of the same frame: world digest without the creating account's nonce
	ErrIsRevert bool   // err == vm.ErrExecutionReverted (identity)
	ErrIsOog    bool   // err == vm.ErrOutOfGas (identity)
	From        common.Address
	To          common.Address
	Self        common.Address // executing contract's storage address (state/fault)
	Create      bool
	Input       []byte
	Value       *big.Int
	Output      []byte
	Used        uint64
	Stack       []uint256.Int // bottom first
	Mem         []byte
	RData       []byte
	JP          int64
	Aspect      common.Address
	ResGas      uint64
	Req         proto.Message
}

// Recorder implements vm.EVMLogger and types.AspectLogger.
type Recorder struct {
	Events   []Event
	KeepMem  bool
	KeepOps  func(op byte) bool // which steps to keep (nil = all)
	OnState  func(e *Event, scope *vm.ScopeContext)
	MaxSteps int
}

func cp(b []byte) []byte {
	if b == nil {
		return nil
	}
	return append([]byte{}, b...)
}
func cpBig(v *big.Int) *big.Int {
	if v == nil {
		return nil
	}
	return new(big.Int).Set(v)
}
func errStr(err error) (string, bool) {
	if err == nil {
		return "", false
	}
	return err.Error(), true
}

func (r *Recorder) CaptureTxStart(gasLimit uint64) {
	r.Events = append(r.Events, Event{Kind: "txstart", Gas: gasLimit})
}
func (r *Recorder) CaptureTxEnd(restGas uint64) {
	r.Events = append(r.Events, Event{Kind: "txend", Gas: restGas})
}
func (r *Recorder) CaptureStart(env *vm.EVM, from common.Address, to common.Address, create bool, input []byte, gas uint64, value *big.Int) {
	r.Events = append(r.Events, Event{Kind: "start", From: from, To: to, Create: create, Input: cp(input), Gas: gas, Value: cpBig(value)})
}
func (r *Recorder) CaptureEnd(output []byte, gasUsed uint64, err error) {
	s, h := errStr(err)
	r.Events = append(r.Events, Event{Kind: "end", Output: cp(output), Used: gasUsed, Err: s, HasErr: h, ErrIsRevert: err == vm.ErrExecutionReverted, ErrIsOog: err == vm.ErrOutOfGas})
}
func (r *Recorder) CaptureEnter(typ vm.OpCode, from common.Address, to common.Address, input []byte, gas uint64, value *big.Int) {
	r.Events = append(r.Events, Event{Kind: "enter", Op: byte(typ), From: from, To: to, Input: cp(input), Gas: gas, Value: cpBig(value)})
}
func (r *Recorder) CaptureExit(output []byte, gasUsed uint64, err error) {
	s, h := errStr(err)
	r.Events = append(r.Events, Event{Kind: "exit", Output: cp(output), Used: gasUsed, Err: s, HasErr: h, ErrIsRevert: err == vm.ErrExecutionReverted, ErrIsOog: err == vm.ErrOutOfGas})
}
func (r *Recorder) step(kind string, pc uint64, op vm.OpCode, gas, cost uint64, scope *vm.ScopeContext, rData []byte, depth int, err error) {
	if r.KeepOps != nil && !r.KeepOps(byte(op)) && err == nil {
		return
	}
	s, h := errStr(err)
	e := Event{Kind: kind, Pc: pc, Op: byte(op), Gas: gas, Cost: cost, Depth: depth, Err: s, HasErr: h, RData: cp(rData)}
	if scope != nil {
		if scope.Contract != nil {
			e.Self = scope.Contract.Address()
			e.CGas = scope.Contract.Gas
		}
		if scope.Stack != nil {
			e.Stack = append([]uint256.Int{}, scope.Stack.Data()...)
		}
		if r.KeepMem && scope.Memory != nil {
			e.Mem = cp(scope.Memory.Data())
		}
	}
	if r.OnState != nil {
		r.OnState(&e, scope)
	}
	r.Events = append(r.Events, e)
}
func (r *Recorder) CaptureState(pc uint64, op vm.OpCode, gas, cost uint64, scope *vm.ScopeContext, rData []byte, depth int, err error) {
	r.step("state", pc, op, gas, cost, scope, rData, depth, err)
}
func (r *Recorder) CaptureFault(pc uint64, op vm.OpCode, gas, cost uint64, scope *vm.ScopeContext, depth int, err error) {
	r.step("fault", pc, op, gas, cost, scope, nil, depth, err)
}
func (r *Recorder) CaptureAspectEnter(jp actypes.JoinPointRunType, from, to, aspectId common.Address, input []byte, gas uint64, value *big.Int, execCtx proto.Message) {
	r.Events = append(r.Events, Event{Kind: "aspenter", JP: int64(jp), From: from, To: to, Aspect: aspectId, Input: cp(input), Gas: gas, Value: cpBig(value), Req: execCtx})
}
func (r *Recorder) CaptureAspectExit(jp actypes.JoinPointRunType, result *actypes.AspectExecutionResult) {
	e := Event{Kind: "aspexit", JP: int64(jp)}
	if result != nil {
		e.ResGas = result.Gas
		e.Output = cp(result.Ret)
		e.Err, e.HasErr = errStr(result.Err)
	}
	r.Events = append(r.Events, e)
}
