package impl

import (
	"sort"

	"verifharness/internal/items"

	"github.com/artela-network/artela-evm/vm"
	"github.com/ethereum/go-ethereum/common"
	"github.com/holiman/uint256"
)

// AddrN writes an address as a number item.
func AddrN(l *items.L, a common.Address) *items.L { return l.Big(a.Big()) }

// DumpChanges writes a *StorageChanges: [ ] for nil, [ [ [ n:call [ b:v* ] ]* ] ] otherwise (sorted by call index).
func DumpChanges(l *items.L, c *vm.StorageChanges) {
	l.Open()
	if c != nil {
		m := c.Changes()
		keys := make([]uint64, 0, len(m))
		for k := range m {
			keys = append(keys, k)
		}
		sort.Slice(keys, func(i, j int) bool { return keys[i] < keys[j] })
		l.Open()
		for _, k := range keys {
			l.Open().N(k).Open()
			for _, v := range m[k] {
				l.B(v)
			}
			l.Close().Close()
		}
		l.Close()
	}
	l.Close()
}

// DumpKey writes a *StorageKey observation in returned order (no sorting of child indices).
func DumpKey(l *items.L, k *vm.StorageKey) {
	l.Open()
	if k != nil {
		slot := k.Slot()
		if slot == nil {
			slot = uint256.NewInt(0)
		}
		l.Big(slot.ToBig()).N(uint64(k.Offset())).N(uint64(k.NodeType())).Open()
		for _, ci := range k.ChildrenIndices() {
			l.B(ci)
		}
		l.Close()
		DumpChanges(l, k.Changes())
	}
	l.Close()
}

// DumpCallTree writes every node reachable through FindCall(0..) and the cursor.  consistent=false
// when the tree's own accessors contradict each other (the caller then poisons the case).
func DumpCallTree(l *items.L, t *vm.CallTree) (consistent bool) {
	consistent = true
	l.Open()
	n := 0
	for ; t.FindCall(uint64(n)) != nil; n++ {
	}
	for i := 0; i < n; i++ {
		c := t.FindCall(uint64(i))
		if c.Index != uint64(i) {
			consistent = false
		}
		l.Open()
		AddrN(l, c.From)
		l.Open()
		if c.To != nil {
			AddrN(l, *c.To)
		}
		l.Close()
		l.B(c.Data)
		if c.Value != nil {
			l.Big(c.Value.ToBig())
		} else {
			l.N(0)
		}
		if c.Gas != nil {
			l.Big(c.Gas.ToBig())
		} else {
			l.N(0)
		}
		l.Open()
		if c.Parent != nil {
			l.N(c.Parent.Index)
			if t.ParentOf(uint64(i)) != c.Parent {
				consistent = false
			}
		} else if t.ParentOf(uint64(i)) != nil {
			consistent = false
		}
		l.Close()
		l.Open()
		ch := t.ChildrenOf(uint64(i))
		if len(ch) != len(c.Children) {
			consistent = false
		}
		for j, cc := range c.Children {
			l.N(cc.Index)
			if j < len(ch) && ch[j] != cc {
				consistent = false
			}
		}
		l.Close()
		l.B(c.Ret).N(c.RemainingGas)
		l.Open()
		if c.Err != nil {
			l.S(c.Err.Error())
		}
		l.Close()
		l.Close()
	}
	l.Close()
	l.Open()
	if cur := t.Current(); cur != nil {
		l.N(cur.Index)
	}
	l.Close()
	if n > 0 && t.Root() != t.FindCall(0) {
		consistent = false
	}
	if n == 0 && t.Root() != nil {
		consistent = false
	}
	return consistent
}
