package impl

import (
	"context"
	"crypto/sha1"
	"encoding/hex"
	"errors"
	"sync"

	actypes "github.com/artela-network/aspect-core/types"
	rt "github.com/artela-network/aspect-runtime"
	rttypes "github.com/artela-network/aspect-runtime/types"
	"github.com/ethereum/go-ethereum/common"
)

// AspectBehaviour decides one firing: given gas and the marshalled request it returns
// (return data, leftover gas, error).
type AspectBehaviour func(aspectID string, pointcut string, gas int64, req []byte) ([]byte, int64, error)

// FakeProvider implements types.AspectProvider.  Bindings maps contract -> pointcut -> aspect ids.
type FakeProvider struct {
	mu       sync.Mutex
	Bindings map[common.Address]map[actypes.PointCut][]string
	ProvErr  map[common.Address]map[actypes.PointCut]error
	Behave   AspectBehaviour
	Log      func(contract common.Address, pc actypes.PointCut)
}

func (p *FakeProvider) Reset() {
	p.mu.Lock()
	defer p.mu.Unlock()
	p.Bindings = map[common.Address]map[actypes.PointCut][]string{}
	p.ProvErr = map[common.Address]map[actypes.PointCut]error{}
	p.Behave = nil
	p.Log = nil
}

func (p *FakeProvider) Bind(contract common.Address, pc actypes.PointCut, ids ...string) {
	if p.Bindings == nil {
		p.Bindings = map[common.Address]map[actypes.PointCut][]string{}
	}
	if p.Bindings[contract] == nil {
		p.Bindings[contract] = map[actypes.PointCut][]string{}
	}
	p.Bindings[contract][pc] = append(p.Bindings[contract][pc], ids...)
}

func (p *FakeProvider) SetProviderError(contract common.Address, pc actypes.PointCut, err error) {
	if p.ProvErr == nil {
		p.ProvErr = map[common.Address]map[actypes.PointCut]error{}
	}
	if p.ProvErr[contract] == nil {
		p.ProvErr[contract] = map[actypes.PointCut]error{}
	}
	p.ProvErr[contract][pc] = err
}

func aspectCode(id string) []byte { return []byte("fake-aspect:" + id) }

func poolKey(code []byte) string {
	h := sha1.New()
	h.Write([]byte{byte(rt.WASM)})
	h.Write(code)
	return "id:" + hex.EncodeToString(h.Sum(nil))
}

func seedRuntime(code []byte, f *fakeRuntime) {
	actypes.RunnerPool(true).Return(poolKey(code), f)
}

func (p *FakeProvider) GetTxBondAspects(ctx context.Context, contract common.Address, pc actypes.PointCut) ([]*actypes.AspectCode, error) {
	if p.Log != nil {
		p.Log(contract, pc)
	}
	if e := p.ProvErr[contract][pc]; e != nil {
		return nil, e
	}
	ids := p.Bindings[contract][pc]
	var out []*actypes.AspectCode
	for _, id := range ids {
		code := aspectCode(id)
		// make sure a fake runtime is waiting in the pool under the key of this code
		seedRuntime(code, &fakeRuntime{id: id, p: p})
		out = append(out, &actypes.AspectCode{AspectId: id, Version: 1, Code: code})
	}
	return out, nil
}

func (p *FakeProvider) GetAccountVerifiers(context.Context, common.Address) ([]*actypes.AspectCode, error) {
	return nil, nil
}
func (p *FakeProvider) GetLatestBlock() int64 { return 0 }

type fakeRuntime struct {
	id string
	p  *FakeProvider
}

func (f *fakeRuntime) Call(method string, gas int64, args ...interface{}) (interface{}, int64, error) {
	if f.p.Behave == nil {
		return []byte{}, gas, nil
	}
	pc, _ := args[0].(string)
	req, _ := args[1].([]byte)
	ret, left, err := f.p.Behave(f.id, pc, gas, req)
	if err != nil {
		return nil, left, err
	}
	if ret == nil {
		return nil, left, nil
	}
	return ret, left, nil
}
func (f *fakeRuntime) Destroy() {}
func (f *fakeRuntime) Reset()   {}
func (f *fakeRuntime) ResetStore(ctx context.Context, apis *rttypes.HostAPIRegistry) error {
	return nil
}
func (f *fakeRuntime) Logger() rttypes.Logger   { return actypes.NoOpsLogger{} }
func (f *fakeRuntime) Context() context.Context { return context.Background() }

var ErrFake = errors.New("fake")
