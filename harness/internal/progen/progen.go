// Package progen generates EVM bytecode programs: mostly valid, grammar based, plus a malformed stream.
package progen

import (
	"github.com/ethereum/go-ethereum/crypto"
	"math/big"

	"verifharness/internal/asm"
	"verifharness/internal/rng"

	"github.com/ethereum/go-ethereum/common"
)

// Universe is the set of addresses programs refer to.
type Universe struct {
	Contracts []common.Address // contracts with generated code
	EOA       common.Address   // funded account without code
	Empty     common.Address   // non-existent account
	Precomp   []common.Address // standard precompiles to call
}

func DefaultUniverse() Universe {
	u := Universe{
		EOA:   common.HexToAddress("0x00000000000000000000000000000000000e0a01"),
		Empty: common.HexToAddress("0x00000000000000000000000000000000000dead1"),
	}
	for i := 0; i < 4; i++ {
		u.Contracts = append(u.Contracts, common.BigToAddress(big.NewInt(int64(0xc0de00+i))))
	}
	for i := 1; i <= 9; i++ {
		u.Precomp = append(u.Precomp, common.BigToAddress(big.NewInt(int64(i))))
	}
	return u
}

type Opts struct {
	Fork         int  // index into impl.Forks
	Depth        int  // nesting budget for call targets
	Cancun       bool // allow TLOAD/TSTORE/MCOPY
	NoCreate     bool
	NoSuicide    bool
	MaxSnips     int
	Journal      bool // allow journal opcodes (never for reference comparison)
	SmallMem     bool // keep memory offsets small (cases carry memory snapshots)
	NoGasObserve bool // no GAS opcode, calls pass a fixed gas amount (pair runs must not observe the fee difference)
	NoMcopy      bool // Cancun programs without MCOPY (comparison with go-ethereum + EIP-1153)
	NoCodeRead   bool // no CODECOPY / EXTCODECOPY / EXTCODEHASH (the compared variants differ in code bytes)
	JournalHeavy bool // every fourth snippet is a journal snippet (attribution / balance-journal properties)
	RevertBias   bool // half of the programs end in REVERT with data and gas left
	PadJournal   bool // follow each journal opcode popping n operands by n-1 JUMPDESTs (pair runs: same length as n POPs)
}

type gen struct {
	r     *rng.R
	u     Universe
	o     Opts
	b     *asm.B
	sites []int // positions of journal opcodes
	// journal-heavy programs: the variable of the previous journal snippet (registered again, or its sibling of the other type)
	lastJ struct {
		set           bool
		name          []byte
		slot, off, ty uint64
	}
}

var journalPops = map[byte]int{0xe0: 3, 0xe1: 4, 0xe2: 6, 0xe3: 5, 0xe4: 6, 0xe5: 5, 0xe6: 4, 0xe7: 2}

// jop emits a journal opcode (and its padding when requested)
func (g *gen) jop(op byte) {
	g.sites = append(g.sites, g.b.Len())
	g.b.Op(op)
	if g.o.PadJournal {
		for i := 1; i < journalPops[op]; i++ {
			g.b.Op(asm.JUMPDEST)
		}
	}
}

func (g *gen) smallWord() *big.Int {
	switch g.r.Intn(8) {
	case 0:
		return big.NewInt(0)
	case 1:
		return big.NewInt(1)
	case 2:
		return new(big.Int).Sub(new(big.Int).Lsh(big.NewInt(1), 256), big.NewInt(1))
	case 3:
		return new(big.Int).Lsh(big.NewInt(1), uint(g.r.Intn(256)))
	case 4:
		return new(big.Int).SetBytes(g.r.Bytes(32))
	default:
		return big.NewInt(int64(g.r.Intn(300)))
	}
}

func (g *gen) memOff() uint64 {
	switch g.r.Intn(12) {
	case 0:
		if g.o.SmallMem {
			return uint64(g.r.Intn(300))
		}
		return uint64(g.r.Intn(4096))
	case 1:
		return 0
	default:
		return uint64(g.r.Intn(8)) * 32
	}
}

func (g *gen) anyAddr() common.Address {
	switch g.r.Intn(10) {
	case 0:
		return g.u.EOA
	case 1:
		return g.u.Empty
	case 2, 3:
		return g.u.Precomp[g.r.Intn(len(g.u.Precomp))]
	default:
		return g.u.Contracts[g.r.Intn(len(g.u.Contracts))]
	}
}

// sink consumes the value on top of the stack in some observable way.
func (g *gen) sink() {
	switch g.r.Intn(6) {
	case 0:
		g.b.Op(asm.POP)
	case 1:
		g.b.Push(uint64(g.r.Intn(4))).Op(asm.SSTORE)
	default:
		g.b.Push(g.memOff()).Op(asm.MSTORE)
	}
}

var binops = []byte{0x01, 0x02, 0x03, 0x04, 0x05, 0x06, 0x07, 0x0a, 0x0b, 0x10, 0x11, 0x12, 0x13, 0x14, 0x16, 0x17, 0x18, 0x1a}
var shiftops = []byte{0x1b, 0x1c, 0x1d}
var ternops = []byte{0x08, 0x09}
var envops = []byte{0x30, 0x32, 0x33, 0x34, 0x36, 0x38, 0x3a, 0x41, 0x42, 0x43, 0x44, 0x45, 0x58, 0x59, 0x5a, 0x3d}

func (g *gen) snippet() {
	b := g.b
	f := g.o.Fork
	if g.o.JournalHeavy && g.o.Journal && g.r.Intn(4) == 0 {
		g.journal()
		return
	}
	switch x := g.r.Intn(100); {
	case x < 14: // binary arithmetic / comparison / bitwise
		b.PushBig(g.smallWord()).PushBig(g.smallWord()).Op(binops[g.r.Intn(len(binops))])
		g.sink()
	case x < 17:
		if f >= 5 { // shifts from Constantinople
			b.PushBig(g.smallWord()).PushBig(g.smallWord()).Op(shiftops[g.r.Intn(3)])
		} else {
			b.PushBig(g.smallWord()).Op(0x19) // NOT
		}
		g.sink()
	case x < 20:
		b.PushBig(g.smallWord()).PushBig(g.smallWord()).PushBig(g.smallWord()).Op(ternops[g.r.Intn(2)])
		g.sink()
	case x < 23: // unary
		b.PushBig(g.smallWord()).Op([]byte{0x15, 0x19}[g.r.Intn(2)])
		g.sink()
	case x < 29: // environment
		op := envops[g.r.Intn(len(envops))]
		if op == 0x3d && f < 4 {
			op = 0x30
		}
		if op == 0x5a && g.o.NoGasObserve {
			op = 0x30
		}
		b.Op(op)
		g.sink()
	case x < 31:
		if f >= 7 {
			b.Op([]byte{0x46, 0x47}[g.r.Intn(2)]) // CHAINID SELFBALANCE
		} else {
			b.Op(0x3a)
		}
		g.sink()
	case x < 32:
		if f >= 9 {
			b.Op(0x48) // BASEFEE
		} else {
			b.Op(0x43)
		}
		g.sink()
	case x < 34: // address-taking
		b.PushAddr(g.anyAddr()).Op([]byte{0x31, 0x3b}[g.r.Intn(2)])
		g.sink()
	case x < 35:
		if f >= 5 && !g.o.NoCodeRead {
			b.PushAddr(g.anyAddr()).Op(0x3f) // EXTCODEHASH
			g.sink()
		}
	case x < 36:
		b.Push(uint64(g.r.Intn(300))).Op(0x40) // BLOCKHASH
		g.sink()
	case x < 40: // memory
		b.PushBig(g.smallWord()).Push(g.memOff())
		if g.r.Bool() {
			b.Op(asm.MSTORE)
		} else {
			b.Op(asm.MSTORE8)
		}
	case x < 43:
		b.Push(g.memOff()).Op(asm.MLOAD)
		g.sink()
	case x < 46: // keccak
		b.Push(uint64(g.r.Intn(100))).Push(g.memOff()).Op(asm.KECCAK256)
		g.sink()
	case x < 50: // copies
		size, src, dst := uint64(g.r.Intn(70)), uint64(g.r.Intn(80)), g.memOff()
		// the source offset is a 256-bit word: offsets of 2^64 and beyond read zeros (and make RETURNDATACOPY fail)
		pushSrc := func() {
			switch g.r.Intn(12) {
			case 0:
				b.PushBig(new(big.Int).Add(new(big.Int).Lsh(big.NewInt(1), 64), big.NewInt(int64(g.r.Intn(40)))))
			case 1:
				b.PushBig(new(big.Int).Sub(new(big.Int).Lsh(big.NewInt(1), 64), big.NewInt(int64(1+g.r.Intn(40)))))
			case 2:
				b.PushBig(new(big.Int).Lsh(big.NewInt(1), uint(65+g.r.Intn(190))))
			default:
				b.Push(src)
			}
		}
		switch g.r.Intn(4) {
		case 0:
			b.Push(size)
			pushSrc()
			b.Push(dst).Op(asm.CALLDATACOPY)
		case 1:
			if g.o.NoGasObserve || g.o.NoCodeRead { // the compared variants differ in code: do not let the program read its own code
				b.Push(size).Push(src).Push(dst).Op(asm.CALLDATACOPY)
			} else {
				b.Push(size)
				pushSrc()
				b.Push(dst).Op(asm.CODECOPY)
			}
		case 2:
			if g.o.NoCodeRead {
				b.Push(size).Push(src).Push(dst).Op(asm.CALLDATACOPY)
			} else {
				b.Push(size)
				pushSrc()
				b.Push(dst).PushAddr(g.anyAddr()).Op(0x3c) // EXTCODECOPY
			}
		default:
			if g.r.Intn(10) == 0 {
				b.PushBig(new(big.Int).Lsh(big.NewInt(1), uint(63+g.r.Intn(190)))).Op(asm.CALLDATALOAD)
			} else {
				b.Push(uint64(g.r.Intn(40))).Op(asm.CALLDATALOAD)
			}
			g.sink()
		}
	case x < 57: // storage
		if g.r.Intn(3) == 0 {
			b.Push(uint64(g.r.Intn(4))).Op(asm.SLOAD)
			g.sink()
		} else if g.r.Intn(2) == 0 {
			// net gas metering: write one slot two or three times with values from the set the pre-state uses
			// (dirty -> reset to original, dirty -> zero -> non-zero, ...)
			slot := uint64(g.r.Intn(4))
			if g.r.Intn(3) != 0 {
				// dirty the slot, then write back the value it had (original -> x -> original)
				b.Push(slot).Op(asm.SLOAD)
				b.Push(uint64(g.r.Intn(5))).Push(slot).Op(asm.SSTORE)
				if g.r.Intn(3) == 0 {
					b.Push(uint64(g.r.Intn(3))).Push(slot).Op(asm.SSTORE)
				}
				b.Push(slot).Op(asm.SSTORE)
			} else {
				for i := 0; i < 2+g.r.Intn(2); i++ {
					b.Push(uint64(g.r.Intn(4))).Push(slot).Op(asm.SSTORE)
				}
			}
		} else {
			vals := []uint64{0, 0, 1, 2, 0xffff}
			b.Push(vals[g.r.Intn(len(vals))]).Push(uint64(g.r.Intn(4))).Op(asm.SSTORE)
		}
	case x < 60: // logs
		n := g.r.Intn(5)
		for i := 0; i < n; i++ {
			b.PushBig(g.smallWord())
		}
		b.Push(uint64(g.r.Intn(70))).Push(g.memOff()).Op(byte(0xa0 + n))
	case x < 63: // dup / swap
		n := 1 + g.r.Intn(3)
		for i := 0; i < n+1; i++ {
			b.Push(uint64(g.r.Intn(256)))
		}
		if g.r.Bool() {
			b.Op(byte(0x80 + n - 1))
			b.Op(asm.POP)
		} else {
			b.Op(byte(0x90 + n - 1))
		}
		for i := 0; i < n+1; i++ {
			b.Op(asm.POP)
		}
	case x < 66: // forward jump (conditional or not) over a few filler JUMPDESTs
		k := g.r.Intn(4)
		cond := g.r.Bool()
		if cond {
			b.PushBig(g.smallWord())
		}
		target := b.Len() + 3 + 1 + k
		b.Push2Fixed(target)
		if cond {
			b.Op(asm.JUMPI)
		} else {
			b.Op(asm.JUMP)
		}
		for i := 0; i < k; i++ {
			b.Op(asm.JUMPDEST)
		}
		b.Op(asm.JUMPDEST)
	case x < 68: // bounded loop: counter in memory
		n := uint64(1 + g.r.Intn(4))
		b.Push(n)
		loop := b.Len()
		b.Op(asm.JUMPDEST)
		b.Push(1).Op(asm.SWAP1, asm.SUB)              // n-1
		b.Op(asm.DUP1).Push2Fixed(loop).Op(asm.JUMPI) // if n-1 != 0 goto loop
		b.Op(asm.POP)
	case x < 79: // calls
		g.call()
	case x < 80: // value sent to the executing account itself, or to another account, with little gas (balances move, recursion dies out)
		vals := []uint64{1, 1, 2, 7}
		b.Push(0).Push(0).Push(uint64(g.r.Intn(8))).Push(0).Push(vals[g.r.Intn(len(vals))])
		if g.r.Intn(3) != 0 {
			b.Op(0x30) // ADDRESS: the account whose storage this frame operates on
		} else {
			b.PushAddr(g.anyAddr())
		}
		b.Push(uint64(g.r.Intn(300))).Op(asm.CALL)
		g.sink()
	case x < 82: // return data must be the callee's bytes, not a window onto the caller's memory
		if f >= 4 && g.hasContextWriter() && g.r.Intn(3) == 0 {
			g.contextWrite()
		} else if f >= 4 && !g.o.NoGasObserve {
			g.returnDataProbe()
		} else {
			g.call()
		}
	case x < 86:
		if !g.o.NoCreate {
			g.create()
		}
	case x < 88: // returndata
		if f >= 4 {
			b.Op(asm.RETURNDATASIZE)
			g.sink()
			if g.r.Bool() {
				b.Push(uint64(g.r.Intn(40)))
				if g.r.Intn(10) == 0 {
					b.PushBig(new(big.Int).Lsh(big.NewInt(1), uint(64+g.r.Intn(190)))) // offset beyond 2^64: out of bounds whatever the size
				} else {
					b.Push(uint64(g.r.Intn(10)))
				}
				b.Push(g.memOff()).Op(asm.RETURNDATACOPY)
			}
		}
	case x < 90:
		if f >= 11 {
			b.Op(asm.PUSH0)
			g.sink()
		}
	case x < 93:
		if g.o.Cancun {
			switch g.r.Intn(3) {
			case 0:
				b.PushBig(g.smallWord()).Push(uint64(g.r.Intn(4))).Op(asm.TSTORE)
			case 1:
				b.Push(uint64(g.r.Intn(4))).Op(asm.TLOAD)
				g.sink()
			default:
				if g.o.NoMcopy {
					b.Push(uint64(g.r.Intn(4))).Op(asm.TLOAD)
					g.sink()
				} else {
					b.Push(uint64(g.r.Intn(100))).Push(g.memOff()).Push(g.memOff()).Op(asm.MCOPY)
				}
			}
		}
	case x < 94:
		if !g.o.NoSuicide && g.r.Intn(3) == 0 {
			b.PushAddr(g.anyAddr()).Op(asm.SELFDESTRUCT)
		}
	case x < 96: // early exit
		switch g.r.Intn(6) {
		case 0:
			b.Op(asm.STOP)
		case 1:
			b.Op(asm.INVALID)
		case 2:
			if f >= 4 {
				b.Push(uint64(g.r.Intn(40))).Push(g.memOff()).Op(asm.REVERT)
			}
		case 3:
			b.Push(uint64(g.r.Intn(40))).Push(g.memOff()).Op(asm.RETURN)
		}
	default:
		if g.o.Journal {
			g.journal()
		} else {
			b.PushBig(g.smallWord())
			g.sink()
		}
	}
}

// journal emits Artela journal instructions: register a state variable (name string in memory at
// 0x300) and journal its value, mostly with well-formed operands.
func (g *gen) journal() {
	b := g.b
	names := [][]byte{[]byte("a"), []byte("balance"), []byte("x")}
	name := names[g.r.Intn(len(names))]
	slot := uint64(g.r.Intn(4))
	ty := uint64(10 + g.r.Intn(2))
	if g.o.JournalHeavy && g.r.Intn(3) != 0 {
		slot = uint64(g.r.Intn(2)) // few slots: the same (slot, offset, type) gets registered under several names, before and after changes
	}
	if g.o.JournalHeavy && g.r.Intn(4) == 0 {
		// a call that executes nothing (zero value, no such account, or the empty account) right before journaling:
		// the call in progress is still this frame's
		target := g.u.Empty
		if g.r.Bool() {
			target = common.BytesToAddress(g.r.Bytes(20))
		}
		b.Push(0).Push(0).Push(0).Push(0).Push(0).PushAddr(target).Push(uint64(g.r.Intn(5000))).Op(asm.CALL).Op(asm.POP)
	}
	b.Push(uint64(len(name))).Push(0x300).Op(asm.MSTORE)
	b.MstoreBytes(0x320, name)
	if g.r.Bool() { // value typed
		off := uint64(g.r.Intn(32))
		if g.o.JournalHeavy && g.r.Intn(3) != 0 {
			off = []uint64{0, 0, 16}[g.r.Intn(3)] // few offsets: variables of different types share (slot, offset), registrations repeat
		}
		if g.o.JournalHeavy && g.lastJ.set && g.r.Intn(2) == 0 {
			// the previous snippet's variable once more (its registration repeats), or its sibling: same slot and offset, the other type
			name, slot, off, ty = g.lastJ.name, g.lastJ.slot, g.lastJ.off, g.lastJ.ty
			if g.r.Intn(3) == 0 {
				ty = 21 - ty
				name = names[g.r.Intn(len(names))]
			}
		}
		g.lastJ.set, g.lastJ.name, g.lastJ.slot, g.lastJ.off, g.lastJ.ty = true, name, slot, off, ty
		if g.r.Intn(10) == 0 {
			off = 32 + uint64(g.r.Intn(3)) // malformed
		}
		b.Push(ty).Push(off).Push(slot).Push(0x300)
		g.jop(0xe1)
		n := 1 + g.r.Intn(2)
		for i := 0; i < n; i++ {
			size := uint64(g.r.Intn(33 - int(off%32)))
			if g.r.Intn(12) == 0 {
				size = 33
			}
			b.Push(ty).Push(size).Push(off).Push(slot)
			g.jop(0xe6)
		}
	} else { // reference typed: store a short string first
		content := g.r.Bytes(g.r.Intn(32))
		w := make([]byte, 32)
		copy(w, content)
		w[31] = byte(2 * len(content))
		if g.r.Intn(10) == 0 {
			w[31] = 0x91 // invalid encoding
		}
		if !g.r.Chance(1, 4) {
			b.PushBytes(w).Push(slot).Op(asm.SSTORE)
		}
		b.Push(ty).Push(slot).Push(0x300)
		g.jop(0xe0)
		b.Push(ty).Push(slot)
		g.jop(0xe7)
	}
}

func (g *gen) call() {
	b := g.b
	f := g.o.Fork
	if f >= 4 && g.hasContextWriter() && g.r.Intn(10) == 0 {
		g.contextWrite()
		return
	}
	target := g.anyAddr()
	insz, inoff := uint64(g.r.Intn(70)), g.memOff()
	outsz, outoff := uint64(g.r.Intn(70)), g.memOff()
	kind := g.r.Intn(4)
	if kind == 2 && f < 1 { // DELEGATECALL from Homestead
		kind = 0
	}
	if kind == 3 && f < 4 { // STATICCALL from Byzantium
		kind = 0
	}
	switch g.r.Intn(40) {
	case 0: // output region whose offset + size overflows 64 bits: the memory-size function must report overflow
		b.Push(1 + outsz).PushBig(new(big.Int).SetUint64(^uint64(0) - uint64(g.r.Intn(3)))).Push(insz).Push(inoff)
	case 1: // the same for the input region
		b.Push(outsz).Push(outoff).Push(1 + insz).PushBig(new(big.Int).SetUint64(^uint64(0) - uint64(g.r.Intn(3))))
	case 2: // an offset beyond 64 bits with size zero is no memory access at all
		b.Push(0).PushBig(new(big.Int).Lsh(big.NewInt(1), uint(64+g.r.Intn(190)))).Push(insz).Push(inoff)
	default:
		b.Push(outsz).Push(outoff).Push(insz).Push(inoff)
	}
	if kind == 0 || kind == 1 {
		vals := []uint64{0, 0, 0, 1, 7, 1 << 62}
		b.Push(vals[g.r.Intn(len(vals))])
	}
	b.PushAddr(target)
	gasChoice := g.r.Intn(6)
	if g.o.NoGasObserve {
		gasChoice = 6
	}
	switch gasChoice {
	case 6:
		b.Push(60000)
	case 0:
		b.Push(uint64(g.r.Intn(3000)))
	case 1:
		b.Push(0)
	case 2:
		b.PushBig(new(big.Int).Lsh(big.NewInt(1), 70))
	default:
		b.Op(asm.GAS)
	}
	b.Op([]byte{asm.CALL, asm.CALLCODE, asm.DELEGATECALL, asm.STATICCALL}[kind])
	g.sink()
}

func (g *gen) hasContextWriter() bool {
	for _, a := range g.u.Precomp {
		if a == common.BigToAddress(big.NewInt(0x66)) {
			return true
		}
	}
	return false
}

// contextWrite: a well-formed (bytes key, bytes value) payload sent to the context-write precompile 0x66 through
// one or two of the four call kinds. Only a plain CALL carries a call context; the other kinds must fail, whatever
// ran before in this process.
func (g *gen) contextWrite() {
	b := g.b
	word := func(v uint64) []byte { return common.LeftPadBytes(new(big.Int).SetUint64(v).Bytes(), 32) }
	key, val := g.r.Bytes(1+g.r.Intn(8)), g.r.Bytes(g.r.Intn(20))
	var payload []byte
	payload = append(payload, word(0x40)...)
	payload = append(payload, word(0x80)...)
	payload = append(payload, word(uint64(len(key)))...)
	payload = append(payload, common.RightPadBytes(key, 32)...)
	payload = append(payload, word(uint64(len(val)))...)
	payload = append(payload, common.RightPadBytes(val, 32)...)
	const at = 0x300
	b.MstoreBytes(at, payload)
	n := 1 + g.r.Intn(2)
	for i := 0; i < n; i++ {
		kind := g.r.Intn(4)
		b.Push(0).Push(0).Push(uint64(len(payload))).Push(at)
		if kind == 0 || kind == 1 {
			b.Push(0)
		}
		b.PushAddr(common.BigToAddress(big.NewInt(0x66))).Push(uint64(20000 + g.r.Intn(20000)))
		b.Op([]byte{asm.CALL, asm.CALLCODE, asm.DELEGATECALL, asm.STATICCALL}[kind])
		g.sink()
	}
}

// returnDataProbe: fill an input region, call something (often a precompile) with it, overwrite the region,
// then copy the whole return data elsewhere and make it observable.
func (g *gen) returnDataProbe() {
	b := g.b
	inoff := uint64(g.r.Intn(4)) * 32
	insz := uint64(1 + g.r.Intn(64))
	dst := inoff + 128 + uint64(g.r.Intn(3))*32
	b.PushBytes(g.r.Bytes(32)).Push(inoff).Op(asm.MSTORE)
	b.PushBytes(g.r.Bytes(32)).Push(inoff + 32).Op(asm.MSTORE)
	outoff, outsz := inoff+uint64(g.r.Intn(48)), uint64(g.r.Intn(40))
	if g.r.Intn(3) == 0 {
		outsz = 0
	}
	target := g.anyAddr()
	if g.r.Intn(2) == 0 {
		target = g.u.Precomp[g.r.Intn(len(g.u.Precomp))]
	}
	kind := g.r.Intn(4)
	b.Push(outsz).Push(outoff).Push(insz).Push(inoff)
	if kind == 0 || kind == 1 {
		b.Push(0)
	}
	b.PushAddr(target).Push(uint64(30000 + g.r.Intn(30000)))
	b.Op([]byte{asm.CALL, asm.CALLCODE, asm.DELEGATECALL, asm.STATICCALL}[kind]).Op(asm.POP)
	b.PushBytes(g.r.Bytes(32)).Push(inoff).Op(asm.MSTORE)
	if g.r.Bool() {
		b.PushBytes(g.r.Bytes(32)).Push(inoff + 32).Op(asm.MSTORE)
	}
	b.Op(asm.RETURNDATASIZE).Push(0).Push(dst).Op(asm.RETURNDATACOPY)
	b.Push(dst).Op(asm.MLOAD).Push(uint64(g.r.Intn(4))).Op(asm.SSTORE)
	if g.r.Bool() {
		b.Push(dst + 32).Op(asm.MLOAD).Push(uint64(g.r.Intn(4))).Op(asm.SSTORE)
	}
}

func (g *gen) create() {
	b := g.b
	f := g.o.Fork
	// init code: optionally SSTORE, then return a short runtime code / revert / invalid
	ib := asm.New()
	if f >= 4 && g.r.Intn(3) == 0 {
		// the init code itself makes a call that returns data (identity precompile on 1..40 bytes of its memory): after the
		// creation the CREATOR's return-data buffer must hold only what the creation handed back (nothing, unless it reverted)
		ib.PushBytes(g.r.Bytes(32)).Push(0).Op(asm.MSTORE)
		ib.Push(0).Push(0).Push(uint64(1 + g.r.Intn(40))).Push(0).Push(4).Op(asm.GAS).Op(asm.STATICCALL).Op(asm.POP)
	}
	switch g.r.Intn(8) {
	case 0:
		ib.Op(asm.INVALID)
	case 1:
		if f >= 4 {
			ib.Push(0).Push(0).Op(asm.REVERT)
		} else {
			ib.Op(asm.STOP)
		}
	case 2:
		ib.Push(1).Push(0).Op(asm.SSTORE).Op(asm.STOP)
	case 3: // returns code starting with 0xEF
		ib.Push(0xef).Push(0).Op(asm.MSTORE8).Push(1).Push(0).Op(asm.RETURN)
	case 5: // returns more code than EIP-170 allows (from Spurious Dragon), after an effect
		ib.Push(0x43).Push(1).Op(asm.SSTORE)
		ib.Push(uint64(24577 + g.r.Intn(3000))).Push(0).Op(asm.RETURN)
	case 4: // has effects (storage, a log), then returns more code than the remaining gas can pay the deposit for
		ib.Push(0x42).Push(0).Op(asm.SSTORE)
		ib.Push(0).Push(0).Op(0xa0)
		ib.Push(uint64(16000 + g.r.Intn(8000))).Push(0).Op(asm.RETURN)
	default:
		rt := []byte{0x60, byte(g.r.Intn(256)), 0x60, 0x00, 0x55, 0x00} // PUSH1 x PUSH1 0 SSTORE STOP
		ib.MstoreBytes(0, rt).Push(uint64(len(rt))).Push(0).Op(asm.RETURN)
	}
	init := ib.Bytes()
	create2 := f >= 5 && g.r.Bool()
	salt := uint64(g.r.Intn(3))
	size := uint64(len(init))
	if g.r.Intn(8) == 0 {
		size = uint64(g.r.Intn(60000)) // large init code (EIP-3860 boundary on Shanghai)
	}
	vals := []uint64{0, 0, 1, 1 << 62}
	value := vals[g.r.Intn(len(vals))]
	emit := func() {
		b.MstoreBytes(0x200, init)
		if create2 {
			b.Push(salt)
		}
		b.Push(size).Push(0x200).Push(value)
		if create2 {
			b.Op(asm.CREATE2)
		} else {
			b.Op(asm.CREATE)
		}
		g.sink()
	}
	emit()
	if f >= 4 && g.r.Bool() {
		// what the creation left in the return-data buffer
		b.Op(asm.RETURNDATASIZE)
		g.sink()
		if g.r.Intn(3) == 0 {
			b.Push(1).Push(0).Push(g.memOff()).Op(asm.RETURNDATACOPY) // fails unless the buffer has at least one byte
		}
	}
	if create2 && f >= 8 && g.r.Intn(3) == 0 {
		// the address this CREATE2 aimed at, computed by the program itself (a failed creation pushes 0), then touched: it
		// stays warm after a creation whose init code failed (EIP-2929: the access-list entry is made before the snapshot)
		h := crypto.Keccak256(init)
		if size != uint64(len(init)) {
			h = nil
		}
		if h != nil {
			b.Push(0xff).Push(0).Op(asm.MSTORE8)
			b.Op(0x30).Push(96).Op(0x1b).Push(1).Op(asm.MSTORE) // ADDRESS << 96 at offset 1
			b.Push(salt).Push(21).Op(asm.MSTORE)
			b.PushBytes(h).Push(53).Op(asm.MSTORE)
			b.Push(85).Push(0).Op(asm.KECCAK256)
			b.PushBytes(bytes20ff).Op(0x16)             // AND: the low 160 bits
			b.Op([]byte{0x31, 0x3b, 0x3f}[g.r.Intn(3)]) // BALANCE / EXTCODESIZE / EXTCODEHASH
			g.sink()
		}
	}
	if create2 && g.r.Intn(3) == 0 {
		emit() // the same CREATE2 again: an address collision unless the first one failed
	}
}

var bytes20ff = func() []byte {
	b := make([]byte, 20)
	for i := range b {
		b[i] = 0xff
	}
	return b
}()

// Program draws one program.
func Program(r *rng.R, u Universe, o Opts) []byte {
	code, _ := ProgramSites(r, u, o)
	return code
}

// ProgramSites also returns the positions of the journal opcodes it emitted.
func ProgramSites(r *rng.R, u Universe, o Opts) ([]byte, []int) {
	g := &gen{r: r, u: u, o: o, b: asm.New()}
	n := 1 + r.Intn(o.MaxSnips)
	for i := 0; i < n; i++ {
		g.snippet()
	}
	// ending
	if o.RevertBias && o.Fork >= 4 && r.Bool() {
		g.b.Push(uint64(r.Intn(40))).Push(g.memOff()).Op(asm.REVERT)
		return g.b.Bytes(), g.sites
	}
	switch r.Intn(5) {
	case 0:
		g.b.Op(asm.STOP)
	case 1:
		g.b.Push(uint64(r.Intn(70))).Push(g.memOff()).Op(asm.RETURN)
	case 2:
		if o.Fork >= 4 {
			g.b.Push(uint64(r.Intn(70))).Push(g.memOff()).Op(asm.REVERT)
		}
	case 3:
		if o.Fork >= 4 && r.Bool() {
			// REVERT with an ABI-encoded Error(string): the call tracers unpack it into revertReason
			msg := []byte("reason " + string(rune('a'+r.Intn(26))))
			if r.Intn(4) == 0 {
				msg = r.Bytes(r.Intn(40)) // not necessarily printable
			}
			payload := append([]byte{0x08, 0xc3, 0x79, 0xa0}, common.LeftPadBytes([]byte{0x20}, 32)...)
			payload = append(payload, common.LeftPadBytes(big.NewInt(int64(len(msg))).Bytes(), 32)...)
			payload = append(payload, common.RightPadBytes(msg, (len(msg)+31)/32*32)...)
			n := len(payload)
			if r.Intn(5) == 0 {
				n -= 1 + r.Intn(20) // truncated: not unpackable
			}
			g.b.MstoreBytes(0x400, payload)
			g.b.Push(uint64(n)).Push(0x400).Op(asm.REVERT)
		}
	}
	return g.b.Bytes(), g.sites
}

// Malformed returns a byte string that is not a well-formed program: random bytes, truncated pushes,
// jumps into push data, stack underflow / overflow drivers.
func Malformed(r *rng.R, u Universe, o Opts) []byte {
	switch r.Intn(6) {
	case 0:
		return r.Bytes(r.Intn(60))
	case 1: // truncated push at the end
		p := Program(r, u, o)
		return append(p, byte(0x60+r.Intn(32)), 0xaa)
	case 2: // jump to a non-JUMPDEST / into push data
		b := asm.New()
		b.Push2Fixed(r.Intn(40)).Op(asm.JUMP).PushBig(new(big.Int).SetBytes([]byte{0x5b, 0x5b, 0x5b})).Op(asm.JUMPDEST, asm.STOP)
		return b.Bytes()
	case 3: // stack overflow
		b := asm.New()
		loop := b.Len()
		b.Op(asm.JUMPDEST).Op(asm.PC).Push2Fixed(loop).Op(asm.JUMP)
		return b.Bytes()
	case 4: // stack underflow after some work
		p := Program(r, u, o)
		return append(p, []byte{asm.POP, asm.POP, asm.ADD, asm.MSTORE}...)
	default: // mutate a valid program
		p := Program(r, u, o)
		for i := 0; i < 1+r.Intn(3) && len(p) > 0; i++ {
			p[r.Intn(len(p))] = byte(r.U64())
		}
		return p
	}
}

// StorageDance: a short straight-line sequence of SSTOREs (and SLOADs) to one of the slots 0..3 with values from the set
// the pre-states use: original -> x -> original, x -> 0 -> y, 0 -> x -> 0, repeated writes of the same value.
func StorageDance(r *rng.R) []byte {
	b := asm.New()
	slot := uint64(r.Intn(4))
	vals := []uint64{0, 0, 1, 2, 3, 0xffff}
	n := 2 + r.Intn(4)
	for i := 0; i < n; i++ {
		if r.Intn(4) == 0 {
			b.Push(slot).Op(asm.SLOAD).Op(asm.POP)
		}
		if r.Intn(5) == 0 {
			b.Push(slot).Op(asm.SLOAD).Push(slot).Op(asm.SSTORE) // write back what is there
			continue
		}
		b.Push(vals[r.Intn(len(vals))]).Push(slot).Op(asm.SSTORE)
	}
	return b.Bytes()
}
