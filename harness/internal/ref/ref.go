// Package ref drives the reference implementation: go-ethereum v1.12.0 core/vm (a dependency of /repo's module).
package ref

import (
	"math/big"

	"github.com/ethereum/go-ethereum/common"
	ethvm "github.com/ethereum/go-ethereum/core/vm"
	"github.com/holiman/uint256"
)

// Event mirrors impl.Event for the upstream logger interface.
type Event struct {
	Kind        string
	Op          byte
	Pc          uint64
	Gas         uint64
	Cost        uint64
	Depth       int
	Err         string
	HasErr      bool
	From        common.Address
	To          common.Address
	Self        common.Address
	Create      bool
	Input       []byte
	Value       *big.Int
	Output      []byte
	Used        uint64
	Stack       []uint256.Int
	Mem         []byte
	RData       []byte
	CGas        uint64 // scope.Contract.Gas at the time of the callback
	ErrIsRevert bool
	ErrIsOog    bool
}

type Recorder struct {
	Events  []Event
	KeepMem bool
	OnState func(e *Event, scope *ethvm.ScopeContext)
}

func cp(b []byte) []byte {
	if b == nil {
		return nil
	}
	return append([]byte{}, b...)
}
func cpBig(v *big.Int) *big.Int {
	if v == nil {
		return nil
	}
	return new(big.Int).Set(v)
}
func errStr(err error) (string, bool) {
	if err == nil {
		return "", false
	}
	return err.Error(), true
}

func (r *Recorder) CaptureTxStart(gasLimit uint64) {
	r.Events = append(r.Events, Event{Kind: "txstart", Gas: gasLimit})
}
func (r *Recorder) CaptureTxEnd(restGas uint64) {
	r.Events = append(r.Events, Event{Kind: "txend", Gas: restGas})
}
func (r *Recorder) CaptureStart(env *ethvm.EVM, from common.Address, to common.Address, create bool, input []byte, gas uint64, value *big.Int) {
	r.Events = append(r.Events, Event{Kind: "start", From: from, To: to, Create: create, Input: cp(input), Gas: gas, Value: cpBig(value)})
}
func (r *Recorder) CaptureEnd(output []byte, gasUsed uint64, err error) {
	s, h := errStr(err)
	r.Events = append(r.Events, Event{Kind: "end", Output: cp(output), Used: gasUsed, Err: s, HasErr: h, ErrIsRevert: err == ethvm.ErrExecutionReverted, ErrIsOog: err == ethvm.ErrOutOfGas})
}
func (r *Recorder) CaptureEnter(typ ethvm.OpCode, from common.Address, to common.Address, input []byte, gas uint64, value *big.Int) {
	r.Events = append(r.Events, Event{Kind: "enter", Op: byte(typ), From: from, To: to, Input: cp(input), Gas: gas, Value: cpBig(value)})
}
func (r *Recorder) CaptureExit(output []byte, gasUsed uint64, err error) {
	s, h := errStr(err)
	r.Events = append(r.Events, Event{Kind: "exit", Output: cp(output), Used: gasUsed, Err: s, HasErr: h, ErrIsRevert: err == ethvm.ErrExecutionReverted, ErrIsOog: err == ethvm.ErrOutOfGas})
}
func (r *Recorder) step(kind string, pc uint64, op ethvm.OpCode, gas, cost uint64, scope *ethvm.ScopeContext, rData []byte, depth int, err error) {
	s, h := errStr(err)
	e := Event{Kind: kind, Pc: pc, Op: byte(op), Gas: gas, Cost: cost, Depth: depth, Err: s, HasErr: h, RData: cp(rData)}
	if scope != nil {
		if scope.Contract != nil {
			e.Self = scope.Contract.Address()
			e.CGas = scope.Contract.Gas
		}
		if scope.Stack != nil {
			e.Stack = append([]uint256.Int{}, scope.Stack.Data()...)
		}
		if r.KeepMem && scope.Memory != nil {
			e.Mem = cp(scope.Memory.Data())
		}
	}
	if r.OnState != nil {
		r.OnState(&e, scope)
	}
	r.Events = append(r.Events, e)
}
func (r *Recorder) CaptureState(pc uint64, op ethvm.OpCode, gas, cost uint64, scope *ethvm.ScopeContext, rData []byte, depth int, err error) {
	r.step("state", pc, op, gas, cost, scope, rData, depth, err)
}
func (r *Recorder) CaptureFault(pc uint64, op ethvm.OpCode, gas, cost uint64, scope *ethvm.ScopeContext, depth int, err error) {
	r.step("fault", pc, op, gas, cost, scope, nil, depth, err)
}
