package gen

import (
	"go/ast"
	"go/build"
	"go/parser"
	"go/token"
	"os"
	"path/filepath"
	"sort"
	"strings"
)

// FlowFact: function `Func` contains statement/expression `What`.
type FlowFact struct{ Func, What string }

// FlowFacts reads, from the non-test Go files of dir, (1) every statement that assigns the interpreter's program
// counter — an assignment or ++/-- whose left-hand side is the identifier `pc` or the dereference `*pc` — with its
// operator, and (2) every method called on a field named `abort` (x.abort.Load(), x.abort.Store(..)), each attributed
// to the enclosing top-level function (function literals count for the function that contains them).
func FlowFacts(dir string) (pcWriters, abortUsers []FlowFact, err error) {
	pcWriters, abortUsers, _, err = FlowFacts3(dir)
	return
}

// FlowFacts3 additionally returns (3) every use of a package-level variable declared in constants.go (the shared
// 256-bit values) in a position where it could be modified: as the receiver of a method call (uint256 methods work in
// place on their receiver), as the left-hand side of an assignment, with its address taken, dereferenced on the left
// of an assignment, or given a second name (assigned to a variable or returned), after which the alias could be modified.  Passing one as an ordinary (read-only) argument is not listed.
func FlowFacts3(dir string) (pcWriters, abortUsers, constWrites []FlowFact, err error) {
	fset := token.NewFileSet()
	ents, err := os.ReadDir(dir)
	if err != nil {
		return nil, nil, nil, err
	}
	consts := map[string]bool{}
	if src, e := os.ReadFile(filepath.Join(dir, "constants.go")); e == nil {
		if f, e := parser.ParseFile(fset, "constants.go", src, parser.SkipObjectResolution); e == nil {
			for _, d := range f.Decls {
				if gd, ok := d.(*ast.GenDecl); ok && gd.Tok == token.VAR {
					for _, sp := range gd.Specs {
						if vs, ok := sp.(*ast.ValueSpec); ok {
							for _, n := range vs.Names {
								consts[n.Name] = true
							}
						}
					}
				}
			}
		}
	}
	isConst := func(e ast.Expr) (string, bool) {
		for {
			switch x := e.(type) {
			case *ast.ParenExpr:
				e = x.X
				continue
			case *ast.StarExpr:
				e = x.X
				continue
			case *ast.Ident:
				return x.Name, consts[x.Name]
			}
			return "", false
		}
	}
	seenC := map[FlowFact]bool{}
	isPC := func(e ast.Expr) bool {
		if st, ok := e.(*ast.StarExpr); ok {
			e = st.X
		}
		if p, ok := e.(*ast.ParenExpr); ok {
			e = p.X
		}
		id, ok := e.(*ast.Ident)
		return ok && id.Name == "pc"
	}
	seenW, seenA := map[FlowFact]bool{}, map[FlowFact]bool{}
	for _, e := range ents {
		name := e.Name()
		if e.IsDir() || !strings.HasSuffix(name, ".go") || strings.HasSuffix(name, "_test.go") {
			continue
		}
		ctx := build.Default
		ctx.BuildTags = []string{"verif"}
		if ok, _ := ctx.MatchFile(dir, name); !ok {
			continue
		}
		src, err := os.ReadFile(filepath.Join(dir, name))
		if err != nil {
			return nil, nil, nil, err
		}
		f, err := parser.ParseFile(fset, name, src, parser.SkipObjectResolution)
		if err != nil {
			return nil, nil, nil, err
		}
		for _, d := range f.Decls {
			fd, ok := d.(*ast.FuncDecl)
			if !ok || fd.Body == nil {
				continue
			}
			fn := recvName(fd)
			ast.Inspect(fd.Body, func(n ast.Node) bool {
				switch x := n.(type) {
				case *ast.AssignStmt:
					for _, l := range x.Lhs {
						if isPC(l) {
							seenW[FlowFact{fn, x.Tok.String()}] = true
						}
						if c, ok := isConst(l); ok && x.Tok != token.DEFINE {
							seenC[FlowFact{fn, c + " " + x.Tok.String()}] = true
						}
					}
					for _, r := range x.Rhs { // a second name for the same pointer: `mask := storageMask`
						if c, ok := isConst(r); ok {
							seenC[FlowFact{fn, "alias " + c}] = true
						}
					}
				case *ast.ValueSpec:
					for _, r := range x.Values {
						if c, ok := isConst(r); ok {
							seenC[FlowFact{fn, "alias " + c}] = true
						}
					}
				case *ast.ReturnStmt:
					for _, r := range x.Results {
						if c, ok := isConst(r); ok {
							seenC[FlowFact{fn, "return " + c}] = true
						}
					}
				case *ast.UnaryExpr:
					if x.Op == token.AND {
						if c, ok := isConst(x.X); ok {
							seenC[FlowFact{fn, "&" + c}] = true
						}
					}
				case *ast.IncDecStmt:
					if isPC(x.X) {
						seenW[FlowFact{fn, x.Tok.String()}] = true
					}
				case *ast.CallExpr:
					if sel, ok := x.Fun.(*ast.SelectorExpr); ok {
						if c, ok := isConst(sel.X); ok {
							switch sel.Sel.Name {
							case "Eq", "Lt", "Gt", "Cmp", "IsZero", "IsUint64", "Uint64", "Bytes", "Bytes32", "Bytes20", "String", "Hex", "Sign", "BitLen", "ToBig", "Clone", "Slt", "Sgt", "LtUint64", "GtUint64", "Uint64WithOverflow":
								// read-only methods of uint256.Int
							default:
								seenC[FlowFact{fn, c + "." + sel.Sel.Name}] = true
							}
						}
						if inner, ok := sel.X.(*ast.SelectorExpr); ok && inner.Sel.Name == "abort" {
							what := sel.Sel.Name
							if len(x.Args) == 1 {
								if id, ok := x.Args[0].(*ast.Ident); ok {
									what += "(" + id.Name + ")"
								} else {
									what += "(?)"
								}
							}
							seenA[FlowFact{fn, what}] = true
						}
					}
				}
				return true
			})
		}
	}
	for k := range seenW {
		pcWriters = append(pcWriters, k)
	}
	for k := range seenA {
		abortUsers = append(abortUsers, k)
	}
	for k := range seenC {
		constWrites = append(constWrites, k)
	}
	less := func(l []FlowFact) func(i, j int) bool {
		return func(i, j int) bool {
			if l[i].Func != l[j].Func {
				return l[i].Func < l[j].Func
			}
			return l[i].What < l[j].What
		}
	}
	sort.Slice(pcWriters, less(pcWriters))
	sort.Slice(abortUsers, less(abortUsers))
	sort.Slice(constWrites, less(constWrites))
	return pcWriters, abortUsers, constWrites, nil
}
