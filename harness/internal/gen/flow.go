package gen

import (
	"go/ast"
	"go/build"
	"go/parser"
	"go/token"
	"os"
	"path/filepath"
	"sort"
	"strings"
)

// FlowFact: function `Func` contains statement/expression `What`.
type FlowFact struct{ Func, What string }

// FlowFacts reads, from the non-test Go files of dir, (1) every statement that assigns the interpreter's program
// counter — an assignment or ++/-- whose left-hand side is the identifier `pc` or the dereference `*pc` — with its
// operator, and (2) every method called on a field named `abort` (x.abort.Load(), x.abort.Store(..)), each attributed
// to the enclosing top-level function (function literals count for the function that contains them).
func FlowFacts(dir string) (pcWriters, abortUsers []FlowFact, err error) {
	fset := token.NewFileSet()
	ents, err := os.ReadDir(dir)
	if err != nil {
		return nil, nil, err
	}
	isPC := func(e ast.Expr) bool {
		if st, ok := e.(*ast.StarExpr); ok {
			e = st.X
		}
		if p, ok := e.(*ast.ParenExpr); ok {
			e = p.X
		}
		id, ok := e.(*ast.Ident)
		return ok && id.Name == "pc"
	}
	seenW, seenA := map[FlowFact]bool{}, map[FlowFact]bool{}
	for _, e := range ents {
		name := e.Name()
		if e.IsDir() || !strings.HasSuffix(name, ".go") || strings.HasSuffix(name, "_test.go") {
			continue
		}
		ctx := build.Default
		ctx.BuildTags = []string{"verif"}
		if ok, _ := ctx.MatchFile(dir, name); !ok {
			continue
		}
		src, err := os.ReadFile(filepath.Join(dir, name))
		if err != nil {
			return nil, nil, err
		}
		f, err := parser.ParseFile(fset, name, src, parser.SkipObjectResolution)
		if err != nil {
			return nil, nil, err
		}
		for _, d := range f.Decls {
			fd, ok := d.(*ast.FuncDecl)
			if !ok || fd.Body == nil {
				continue
			}
			fn := recvName(fd)
			ast.Inspect(fd.Body, func(n ast.Node) bool {
				switch x := n.(type) {
				case *ast.AssignStmt:
					for _, l := range x.Lhs {
						if isPC(l) {
							seenW[FlowFact{fn, x.Tok.String()}] = true
						}
					}
				case *ast.IncDecStmt:
					if isPC(x.X) {
						seenW[FlowFact{fn, x.Tok.String()}] = true
					}
				case *ast.CallExpr:
					if sel, ok := x.Fun.(*ast.SelectorExpr); ok {
						if inner, ok := sel.X.(*ast.SelectorExpr); ok && inner.Sel.Name == "abort" {
							what := sel.Sel.Name
							if len(x.Args) == 1 {
								if id, ok := x.Args[0].(*ast.Ident); ok {
									what += "(" + id.Name + ")"
								} else {
									what += "(?)"
								}
							}
							seenA[FlowFact{fn, what}] = true
						}
					}
				}
				return true
			})
		}
	}
	for k := range seenW {
		pcWriters = append(pcWriters, k)
	}
	for k := range seenA {
		abortUsers = append(abortUsers, k)
	}
	less := func(l []FlowFact) func(i, j int) bool {
		return func(i, j int) bool {
			if l[i].Func != l[j].Func {
				return l[i].Func < l[j].Func
			}
			return l[i].What < l[j].What
		}
	}
	sort.Slice(pcWriters, less(pcWriters))
	sort.Slice(abortUsers, less(abortUsers))
	return pcWriters, abortUsers, nil
}
