// Package gen is the translator (T-gen): it reads /repo's current source and the live instruction
// tables and writes Gallina data files.
package gen

import (
	"crypto/sha256"
	"encoding/binary"
	"fmt"
	"go/ast"
	"go/build"
	"go/parser"
	"go/token"
	"os"
	"path/filepath"
	"reflect"
	"sort"
	"strings"
)

// Decl is one top-level declaration with the digest of its normalised structure.
type Decl struct {
	Pkg    string // logical package: vm, core, tracers, tracers/logger, tracers/native
	File   string // base file name
	Name   string // Func, Recv.Method, const/var/type name
	Digest uint64 // first 60 bits of sha256 over the structural serialisation
}

// ---- normalisation rules (each one is part of the trusted translator) --------------------------
// N1  a leading parameter `ctx context.Context` of a function type is dropped
// N2  a leading call argument that is the identifier `ctx` is dropped
// N3  `var x = e` inside a function body is serialised like `x := e`
// N4  positions, comments, parentheses-free layout are not part of the serialisation
// N5  a const/var block is digested as a whole for each of its names (iota makes the value of a name
//     depend on its position), together with the index of the name in the block

type ser struct{ sb strings.Builder }

func (s *ser) w(x string) { s.sb.WriteString(x); s.sb.WriteByte(0) }

func isCtxParam(f *ast.Field) bool {
	if len(f.Names) != 1 || f.Names[0].Name != "ctx" {
		return false
	}
	se, ok := f.Type.(*ast.SelectorExpr)
	if !ok {
		return false
	}
	x, ok := se.X.(*ast.Ident)
	return ok && x.Name == "context" && se.Sel.Name == "Context"
}

func (s *ser) node(n ast.Node) {
	if n == nil || reflect.ValueOf(n).IsNil() {
		s.w("nil")
		return
	}
	switch x := n.(type) {
	case *ast.Ident:
		s.w("I:" + x.Name)
		return
	case *ast.BasicLit:
		s.w("L:" + x.Kind.String() + ":" + x.Value)
		return
	case *ast.ParenExpr:
		s.node(x.X) // N4
		return
	case *ast.FuncType:
		s.w("FuncType")
		params := x.Params
		if params != nil && len(params.List) > 0 && isCtxParam(params.List[0]) { // N1
			cp := *params
			cp.List = params.List[1:]
			params = &cp
		}
		if x.TypeParams != nil {
			s.node(x.TypeParams)
		}
		s.fieldList(params)
		s.fieldList(x.Results)
		s.w(")")
		return
	case *ast.CallExpr:
		s.w("Call")
		s.node(x.Fun)
		args := x.Args
		if len(args) > 0 {
			if id, ok := args[0].(*ast.Ident); ok && id.Name == "ctx" { // N2
				args = args[1:]
			}
		}
		for _, a := range args {
			s.node(a)
		}
		if x.Ellipsis.IsValid() {
			s.w("...")
		}
		s.w(")")
		return
	case *ast.DeclStmt:
		if gd, ok := x.Decl.(*ast.GenDecl); ok && gd.Tok == token.VAR && len(gd.Specs) == 1 { // N3
			if vs, ok := gd.Specs[0].(*ast.ValueSpec); ok && vs.Type == nil && len(vs.Values) == len(vs.Names) && len(vs.Values) > 0 {
				s.w("AssignStmt")
				s.w(":=")
				for _, nm := range vs.Names {
					s.node(nm)
				}
				s.w("=")
				for _, v := range vs.Values {
					s.node(v)
				}
				s.w(")")
				return
			}
		}
	case *ast.AssignStmt:
		s.w("AssignStmt")
		s.w(x.Tok.String())
		for _, l := range x.Lhs {
			s.node(l)
		}
		s.w("=")
		for _, r := range x.Rhs {
			s.node(r)
		}
		s.w(")")
		return
	}
	// generic: type name, token-valued fields, children in field order
	v := reflect.ValueOf(n).Elem()
	t := v.Type()
	s.w(t.Name())
	for i := 0; i < t.NumField(); i++ {
		f := v.Field(i)
		ft := t.Field(i)
		switch {
		case ft.Type == reflect.TypeOf(token.Pos(0)):
			// N4, but keep the presence of optional tokens that change meaning
			if ft.Name == "Ellipsis" || ft.Name == "Arrow" {
				if f.Int() != 0 {
					s.w(ft.Name)
				}
			}
		case ft.Type == reflect.TypeOf(token.Token(0)):
			s.w("T:" + token.Token(f.Int()).String())
		case ft.Type.Kind() == reflect.Bool:
			s.w(fmt.Sprintf("B:%v", f.Bool()))
		case ft.Type == reflect.TypeOf(ast.ChanDir(0)):
			s.w(fmt.Sprintf("D:%d", f.Int()))
		case ft.Name == "Doc" || ft.Name == "Comment" || ft.Name == "Obj" || ft.Name == "Scope" || ft.Name == "Unresolved" || ft.Name == "Comments":
		case ft.Type == reflect.TypeOf((*ast.FieldList)(nil)):
			s.fieldList(f.Interface().(*ast.FieldList))
		case f.Kind() == reflect.Slice:
			s.w("[")
			for j := 0; j < f.Len(); j++ {
				if nn, ok := f.Index(j).Interface().(ast.Node); ok {
					s.node(nn)
				}
			}
			s.w("]")
		default:
			if f.Kind() == reflect.Interface || f.Kind() == reflect.Ptr {
				if f.IsNil() {
					s.w("nil")
				} else if nn, ok := f.Interface().(ast.Node); ok {
					s.node(nn)
				}
			}
		}
	}
	s.w(")")
}

func (s *ser) fieldList(fl *ast.FieldList) {
	s.w("Fields")
	if fl != nil {
		for _, f := range fl.List {
			s.w("F")
			for _, nm := range f.Names {
				s.node(nm)
			}
			s.node(f.Type)
			if f.Tag != nil {
				s.node(f.Tag)
			}
		}
	}
	s.w(")")
}

func digestOf(parts ...string) uint64 {
	h := sha256.New()
	for _, p := range parts {
		h.Write([]byte(p))
		h.Write([]byte{1})
	}
	sum := h.Sum(nil)
	return binary.BigEndian.Uint64(sum[:8]) >> 4
}

func recvName(fd *ast.FuncDecl) string {
	if fd.Recv == nil || len(fd.Recv.List) == 0 {
		return fd.Name.Name
	}
	t := fd.Recv.List[0].Type
	if st, ok := t.(*ast.StarExpr); ok {
		t = st.X
	}
	if id, ok := t.(*ast.Ident); ok {
		return id.Name + "." + fd.Name.Name
	}
	return "?." + fd.Name.Name
}

// ParseDir returns the declarations of the non-test Go files of dir (only base names in `only`, if non-nil)
// and the concatenated content hash input.
func ParseDir(pkg, dir string, only map[string]bool) ([]Decl, []byte, error) {
	fset := token.NewFileSet()
	ents, err := os.ReadDir(dir)
	if err != nil {
		return nil, nil, err
	}
	var out []Decl
	var raw []byte
	for _, e := range ents {
		name := e.Name()
		if e.IsDir() || !strings.HasSuffix(name, ".go") || strings.HasSuffix(name, "_test.go") {
			continue
		}
		if only != nil && !only[name] {
			continue
		}
		ctx := build.Default
		ctx.BuildTags = []string{"verif"}
		if ok, _ := ctx.MatchFile(dir, name); !ok {
			continue
		}
		src, err := os.ReadFile(filepath.Join(dir, name))
		if err != nil {
			return nil, nil, err
		}
		raw = append(raw, src...)
		f, err := parser.ParseFile(fset, name, src, parser.SkipObjectResolution)
		if err != nil {
			return nil, nil, fmt.Errorf("%s/%s: %v", dir, name, err)
		}
		initCount := 0
		for _, d := range f.Decls {
			switch x := d.(type) {
			case *ast.FuncDecl:
				s := &ser{}
				s.w("Func")
				if x.Recv != nil {
					s.fieldList(x.Recv)
				}
				s.node(x.Type)
				if x.Body != nil {
					s.node(x.Body)
				}
				nm := recvName(x)
				if nm == "init" {
					nm = fmt.Sprintf("init#%s#%d", name, initCount)
					initCount++
				}
				out = append(out, Decl{Pkg: pkg, File: name, Name: nm, Digest: digestOf(s.sb.String())})
			case *ast.GenDecl:
				if x.Tok == token.IMPORT {
					continue
				}
				blk := &ser{}
				blk.node(x)
				idx := 0
				for _, sp := range x.Specs {
					switch y := sp.(type) {
					case *ast.TypeSpec:
						s := &ser{}
						s.node(y)
						out = append(out, Decl{Pkg: pkg, File: name, Name: y.Name.Name, Digest: digestOf("type", s.sb.String())})
					case *ast.ValueSpec:
						for _, nm := range y.Names {
							n := nm.Name
							if n == "_" {
								n = fmt.Sprintf("_#%s#%d", name, idx)
							}
							out = append(out, Decl{Pkg: pkg, File: name, Name: n, Digest: digestOf(x.Tok.String(), blk.sb.String(), fmt.Sprint(idx))}) // N5
							idx++
						}
					}
				}
			}
		}
	}
	sort.Slice(out, func(i, j int) bool {
		if out[i].Name != out[j].Name {
			return out[i].Name < out[j].Name
		}
		return out[i].File < out[j].File
	})
	return out, raw, nil
}
