package gen

import (
	"math/big"
	"reflect"
	"regexp"
	"runtime"
	"sort"
	"strings"

	"verifharness/internal/impl"

	"github.com/artela-network/artela-evm/vm"
	"github.com/ethereum/go-ethereum/common"
	"github.com/ethereum/go-ethereum/core"
	"github.com/ethereum/go-ethereum/core/state"
	ethvm "github.com/ethereum/go-ethereum/core/vm"
	"github.com/ethereum/go-ethereum/params"
)

// Entry is one instruction-table slot as the live interpreter holds it.
type Entry struct {
	ConstGas uint64
	Min, Max uint64
	Exec     string
	Dyn      string
	Mem      string
}

var funcN = regexp.MustCompile(`^func\d+$`)

// symName reduces a runtime symbol to "<outermost named function or constructor>":
//
//	github.com/x/vm.opAdd                                   -> opAdd
//	github.com/x/vm.makeLog.func1                           -> makeLog
//	github.com/x/vm.newFrontierInstructionSet.makeDup.func7 -> makeDup   (inlined constructor)
//
// Constructor arguments are not visible here; they are covered by the digest of the table builders.
func symName(pc uintptr) string {
	if pc == 0 {
		return ""
	}
	f := runtime.FuncForPC(pc)
	if f == nil {
		return "?"
	}
	n := f.Name()
	if i := strings.LastIndex(n, "/"); i >= 0 {
		n = n[i+1:]
	}
	parts := strings.Split(n, ".")
	parts = parts[1:] // drop the package
	for len(parts) > 1 && funcN.MatchString(parts[len(parts)-1]) {
		parts = parts[:len(parts)-1]
	}
	return parts[len(parts)-1]
}

// readTable reads the unexported `table` field of an interpreter (artela or upstream) reflectively.
func readTable(interp interface{}) [256]Entry {
	var out [256]Entry
	tbl := reflect.ValueOf(interp).Elem().FieldByName("table").Elem()
	for i := 0; i < 256; i++ {
		op := tbl.Index(i)
		if op.IsNil() {
			out[i] = Entry{Exec: "<nil>"}
			continue
		}
		o := op.Elem()
		e := Entry{
			ConstGas: o.FieldByName("constantGas").Uint(),
			Min:      uint64(o.FieldByName("minStack").Int()),
			Max:      uint64(o.FieldByName("maxStack").Int()),
			Exec:     symName(o.FieldByName("execute").Pointer()),
			Dyn:      symName(o.FieldByName("dynamicGas").Pointer()),
			Mem:      symName(o.FieldByName("memorySize").Pointer()),
		}
		out[i] = e
	}
	return out
}

// ArtelaTable returns the table NewEVMInterpreter selects for the fork (and extra EIPs).
func ArtelaTable(fork string, extra []int) [256]Entry {
	env := impl.NewEnv(impl.Opts{Fork: fork, ExtraEips: extra})
	return readTable(env.EVM.Interpreter())
}

// UpstreamEVM builds a go-ethereum v1.12.0 EVM for the fork over the given state.
func UpstreamEVM(fork string, st *state.StateDB, tracer ethvm.EVMLogger, extra []int) *ethvm.EVM {
	cfg, merge := impl.ChainConfig(fork)
	bc := ethvm.BlockContext{
		CanTransfer: core.CanTransfer,
		Transfer:    core.Transfer,
		GetHash:     func(n uint64) common.Hash { return common.BigToHash(new(big.Int).SetUint64(n + 0x1000)) },
		Coinbase:    impl.Coinbase,
		BlockNumber: big.NewInt(impl.BlockNumber),
		Time:        0,
		Difficulty:  big.NewInt(0x20000),
		GasLimit:    30_000_000,
		BaseFee:     big.NewInt(7),
	}
	if merge {
		r := common.HexToHash("0x1234567890abcdef1234567890abcdef1234567890abcdef1234567890abcdef")
		bc.Random = &r
		bc.Difficulty = big.NewInt(0)
	}
	return ethvm.NewEVM(bc, ethvm.TxContext{Origin: impl.Origin, GasPrice: big.NewInt(10)}, st, cfg,
		ethvm.Config{Tracer: tracer, ExtraEips: extra})
}

func UpstreamTable(fork string, extra []int) [256]Entry {
	evm := UpstreamEVM(fork, impl.NewState(), nil, extra)
	return readTable(evm.Interpreter())
}

// PrecompileSet lists, per fork, address -> Go type name of the precompile.
func ArtelaPrecompiles(fork string) map[uint64]string {
	cfg, merge := impl.ChainConfig(fork)
	rules := cfg.Rules(big.NewInt(0), merge, 0)
	var m map[common.Address]vm.PrecompiledContract
	switch {
	case rules.IsBerlin:
		m = vm.PrecompiledContractsBerlin
	case rules.IsIstanbul:
		m = vm.PrecompiledContractsIstanbul
	case rules.IsByzantium:
		m = vm.PrecompiledContractsByzantium
	default:
		m = vm.PrecompiledContractsHomestead
	}
	out := map[uint64]string{}
	for a, p := range m {
		out[a.Big().Uint64()] = reflect.TypeOf(p).Elem().Name()
	}
	return out
}

func UpstreamPrecompiles(fork string) map[uint64]string {
	cfg, merge := impl.ChainConfig(fork)
	rules := cfg.Rules(big.NewInt(0), merge, 0)
	var m map[common.Address]ethvm.PrecompiledContract
	switch {
	case rules.IsBerlin:
		m = ethvm.PrecompiledContractsBerlin
	case rules.IsIstanbul:
		m = ethvm.PrecompiledContractsIstanbul
	case rules.IsByzantium:
		m = ethvm.PrecompiledContractsByzantium
	default:
		m = ethvm.PrecompiledContractsHomestead
	}
	out := map[uint64]string{}
	for a, p := range m {
		out[a.Big().Uint64()] = reflect.TypeOf(p).Elem().Name()
	}
	return out
}

// ActiveArtela is vm.ActivePrecompiles(rules) as numbers (what the access list is warmed with).
func ActiveArtela(fork string) []uint64 {
	cfg, merge := impl.ChainConfig(fork)
	rules := cfg.Rules(big.NewInt(0), merge, 0)
	var out []uint64
	for _, a := range vm.ActivePrecompiles(rules) {
		out = append(out, a.Big().Uint64())
	}
	sort.Slice(out, func(i, j int) bool { return out[i] < out[j] })
	return out
}

var _ = params.MainnetChainConfig

// ArtelaOpName / UpstreamOpName: OpCode(i).String(); ArtelaStringToOp: vm.StringToOp
func ArtelaOpName(i int) string     { return vm.OpCode(i).String() }
func UpstreamOpName(i int) string   { return ethvm.OpCode(i).String() }
func ArtelaStringToOp(s string) int { return int(vm.StringToOp(s)) }
