// Package rng is a splitmix64 PRNG: every random choice in the harness derives from one seed.
package rng

type R struct{ s uint64 }

func New(seed uint64) *R { return &R{s: seed*0x9e3779b97f4a7c15 + 0x1234567} }

func (r *R) U64() uint64 {
	r.s += 0x9e3779b97f4a7c15
	z := r.s
	z = (z ^ (z >> 30)) * 0xbf58476d1ce4e5b9
	z = (z ^ (z >> 27)) * 0x94d049bb133111eb
	return z ^ (z >> 31)
}

// Intn returns a value in [0,n).
func (r *R) Intn(n int) int {
	if n <= 0 {
		return 0
	}
	return int(r.U64() % uint64(n))
}

func (r *R) Bool() bool { return r.U64()&1 == 1 }

// Chance returns true with probability num/den.
func (r *R) Chance(num, den int) bool { return r.Intn(den) < num }

func (r *R) Bytes(n int) []byte {
	b := make([]byte, n)
	for i := range b {
		b[i] = byte(r.U64())
	}
	return b
}

// Fork derives an independent stream.
func (r *R) Fork() *R { return New(r.U64()) }
