module verifharness

go 1.20

require (
	github.com/artela-network/artela-evm v0.0.0
	github.com/artela-network/aspect-core v0.4.8-rc8
	github.com/artela-network/aspect-runtime v0.4.8-rc8
	github.com/ethereum/go-ethereum v1.12.0
	github.com/holiman/uint256 v1.2.2
	google.golang.org/protobuf v1.30.0
)

require (
	github.com/DataDog/zstd v1.5.2 // indirect
	github.com/VictoriaMetrics/fastcache v1.6.0 // indirect
	github.com/beorn7/perks v1.0.1 // indirect
	github.com/bytecodealliance/wasmtime-go/v20 v20.0.0 // indirect
	github.com/cespare/xxhash/v2 v2.2.0 // indirect
	github.com/cockroachdb/errors v1.9.1 // indirect
	github.com/cockroachdb/logtags v0.0.0-20230118201751-21c54148d20b // indirect
	github.com/cockroachdb/pebble v0.0.0-20230209160836-829675f94811 // indirect
	github.com/cockroachdb/redact v1.1.3 // indirect
	github.com/davecgh/go-spew v1.1.1 // indirect
	github.com/deckarep/golang-set/v2 v2.1.0 // indirect
	github.com/fsnotify/fsnotify v1.6.0 // indirect
	github.com/gballet/go-libpcsclite v0.0.0-20190607065134-2772fd86a8ff // indirect
	github.com/getsentry/sentry-go v0.18.0 // indirect
	github.com/go-stack/stack v1.8.1 // indirect
	github.com/gofrs/flock v0.8.1 // indirect
	github.com/gogo/protobuf v1.3.2 // indirect
	github.com/golang/protobuf v1.5.2 // indirect
	github.com/golang/snappy v0.0.5-0.20220116011046-fa5810519dcb // indirect
	github.com/google/uuid v1.3.0 // indirect
	github.com/gorilla/websocket v1.5.0 // indirect
	github.com/holiman/bloomfilter/v2 v2.0.3 // indirect
	github.com/huin/goupnp v1.0.3 // indirect
	github.com/jackpal/go-nat-pmp v1.0.2 // indirect
	github.com/kr/pretty v0.3.1 // indirect
	github.com/kr/text v0.2.0 // indirect
	github.com/mattn/go-runewidth v0.0.9 // indirect
	github.com/matttproud/golang_protobuf_extensions v1.0.4 // indirect
	github.com/olekukonko/tablewriter v0.0.5 // indirect
	github.com/pkg/errors v0.9.1 // indirect
	github.com/prometheus/client_golang v1.14.0 // indirect
	github.com/prometheus/client_model v0.3.0 // indirect
	github.com/prometheus/common v0.39.0 // indirect
	github.com/prometheus/procfs v0.9.0 // indirect
	github.com/rogpeppe/go-internal v1.9.0 // indirect
	github.com/shirou/gopsutil v3.21.4-0.20210419000835-c7a38de76ee5+incompatible // indirect
	github.com/status-im/keycard-go v0.2.0 // indirect
	github.com/syndtr/goleveldb v1.0.1-0.20210819022825-2ae1ddf74ef7 // indirect
	github.com/tklauser/go-sysconf v0.3.5 // indirect
	github.com/tklauser/numcpus v0.2.2 // indirect
	github.com/tyler-smith/go-bip39 v1.1.0 // indirect
	golang.org/x/crypto v0.9.0 // indirect
	golang.org/x/exp v0.0.0-20230206171751-46f607a40771 // indirect
	golang.org/x/sync v0.1.0 // indirect
	golang.org/x/sys v0.8.0 // indirect
	golang.org/x/text v0.9.0 // indirect
)

replace github.com/artela-network/artela-evm => /repo

replace github.com/bytecodealliance/wasmtime-go/v20 => github.com/artela-network/wasmtime-go/v20 v20.0.3
